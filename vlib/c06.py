"""C06 — storylines compile to exactly the timed scenes they denote."""
import json
import re
from fractions import Fraction
from .common import *

PROP = "C06"

# --------------------------------------------------------------------------------------
# a case = roles, cast, tempo, ordered script clauses
#   clause: ("e", c, "a"|"r", name, [actions], rawtext) | ("m", c, "s"|"e", mood)
#           | ("s", text) | ("d", frm, to)
# --------------------------------------------------------------------------------------

TEMPI = [("0s", 0), ("1ns", 1), ("1ms", 10**6), ("100ms", 10**8), ("1s", 10**9), ("1.5s", 15 * 10**8),
         ("90s", 90 * 10**9), ("250ms", 25 * 10**7)]


def re_escape(s):
    return "".join("\\" + c if c in ".+*?()[]{}|^$\\" else c for c in s)


def render(case):
    out = []
    for r, acts in case["roles"]:
        out.append("role %s" % r)
        for a in acts:
            out.append("  :%s echo %s" % (a, a))
        out.append("end")
    out.append("cast")
    for ent in case["castdef"]:
        if ent[0] == "one":
            out.append("  %s plays %s" % (ent[1], ent[2]))
        else:
            out.append("  %s* play %d %s" % (ent[1], ent[3], ent[2]))
    out.append("end")
    out.append("script")
    out.append("  tempo %s" % case["tempo"][0])
    for cl in case["clauses"]:
        if cl[0] == "e":
            tgt = cl[3] if cl[2] == "a" else "every " + cl[3]
            out.append("  scene %s entails for %s: %s" % (cl[1], tgt, cl[5]))
        elif cl[0] == "m":
            out.append("  scene %s mood %s %s" % (cl[1], "starts" if cl[2] == "s" else "ends", cl[3]))
        elif cl[0] == "s":
            out.append("  storyline %s" % cl[1])
        elif cl[0] == "d":
            out.append("  edit s/%s/%s/" % (cl[1] if len(cl) > 3 and cl[3] == "raw" else re_escape(cl[1]), cl[2]))
    out.append("end")
    return "\n".join(out) + "\n"


def cast_of(case):
    res = []
    for ent in case["castdef"]:
        if ent[0] == "one":
            res.append((ent[1], ent[2]))
        else:
            for i in range(ent[3]):
                res.append(("%s%d" % (ent[1], i + 1), ent[2]))
    return res


def tok_clause(cl):
    if cl[0] == "e":
        acts = "/".join(hexs(a) for a in cl[4]) or "-"
        return "e:%s:%s:%s:%s" % (hexs(cl[1]), cl[2], hexs(cl[3]), acts)
    if cl[0] == "m":
        return "m:%s:%s:%s" % (hexs(cl[1]), cl[2], hexs(cl[3]))
    if cl[0] == "s":
        return "s:%s" % hexs(cl[1])
    if cl[0] == "d":
        return "d:%s:%s" % (hexs(cl[1]), hexs(cl[2]))
    if cl[0] == "b":
        return "b:%s" % hexs(cl[1])
    raise ValueError(cl)


def tok_cfg(case):
    roles = ",".join("%s:%s" % (hexs(r), "/".join(hexs(a) for a in acts) or "-") for r, acts in case["roles"]) or "-"
    cast = ",".join("%s:%s" % (hexs(a), hexs(r)) for a, r in cast_of(case)) or "-"
    return "%d %s %s" % (case["tempo"][1], roles, cast)


def model_line(case, op="play", clauses=None, extra=""):
    cls = case["clauses"] if clauses is None else clauses
    return ("C06 %s %s %s%s" % (op, tok_cfg(case), extra, " ".join(tok_clause(c) for c in cls))).rstrip()


# ---- the real play, flattened to the schedule it denotes -------------------------------

def flatten_real(play):
    acts = []
    for act in play or []:
        t = 0
        effs = []
        for sc in act.get("Scenes") or []:
            t = max(t, sc["WaitUntilNs"])
            moods, perf, odd = [], [], False
            for ln in sc.get("Lines") or []:
                steps = ln.get("Steps") or []
                if ln["Actor"] == "":
                    if not steps or not all(s["Mood"] for s in steps):
                        odd = True
                    moods += [s["Action"] for s in steps]
                else:
                    if any(s["Mood"] for s in steps):
                        odd = True
                    if steps:
                        perf.append("%s:%s" % (hexs(ln["Actor"]), "/".join(
                            hexs(s["Action"]) + ("?" if s["FailOk"] else "!") for s in steps)))
            if odd or (moods and perf):
                effs.append("%dX-unrepresentable-scene" % t)
            effs += ["%dM%s" % (t, hexs(m)) for m in moods]
            if perf:
                effs.append("%dP%s" % (t, "&".join(perf)))
        effs.append("%dE" % t)
        acts.append(";".join(effs))
    return "|".join(acts) or "-"


DUR_RE = re.compile(r"(\d+(?:\.\d+)?)(h|ms|µs|us|ns|m|s)")
UNIT = {"h": 3600 * 10**9, "m": 60 * 10**9, "s": 10**9, "ms": 10**6, "µs": 1000, "us": 1000, "ns": 1}


def go_dur(s):
    tot = Fraction(0)
    pos = 0
    for m in DUR_RE.finditer(s):
        if m.start() != pos:
            return None
        pos = m.end()
        tot += Fraction(m.group(1)) * UNIT[m.group(2)]
    if pos != len(s) or tot.denominator != 1:
        return None
    return int(tot)


def flatten_printed(steps):
    """parse the `# play` listing (what -p prints) back into a schedule."""
    acts, cur = [], None
    for l in steps.split("\n"):
        if l.startswith("# -- ACT"):
            if cur is not None:
                acts.append(cur)
            cur = {"t": 0, "scenes": []}
            continue
        m = re.match(r"^# +(\d+):  (.*)$", l)
        if not m or cur is None:
            continue
        n, body = int(m.group(1)), m.group(2)
        if not cur["scenes"] or cur["scenes"][-1]["n"] != n:
            cur["scenes"].append({"n": n, "t": None, "moods": [], "lines": [[]]})
        sc = cur["scenes"][-1]
        w = re.match(r"^\(wait until (.*)\)$", body)
        md = re.match(r"^\(mood: (.*)\)$", body)
        st = re.match(r"^(\S+): (\S+)([!?])$", body)
        if w:
            sc["t"] = go_dur(w.group(1))
        elif body == "(meanwhile)":
            sc["lines"].append([])
        elif md:
            sc["moods"].append(md.group(1))
        elif st:
            sc["lines"][-1].append(st.groups())
        else:
            sc["moods"].append("?unparsed:" + body)
    if cur is not None:
        acts.append(cur)
    out = []
    for a in acts:
        t, effs = 0, []
        for sc in a["scenes"]:
            if sc["t"] is not None:
                t = max(t, sc["t"])
            effs += ["%dM%s" % (t, hexs(m)) for m in sc["moods"]]
            perf = []
            for ln in sc["lines"]:
                if ln:
                    perf.append("%s:%s" % (hexs(ln[0][0]), "/".join(hexs(s[1]) + s[2] for s in ln)))
            if perf:
                effs.append("%dP%s" % (t, "&".join(perf)))
        effs.append("%dE" % t)
        out.append(";".join(effs))
    return "|".join(out) or "-"


# ---- generators --------------------------------------------------------------------------

FIXED_ROLES = [("doc", ["cure", "nap"])]
FIXED_TABLE = [
    ("e", "a", "a", "bob", ["cure", "nap?"], "cure; nap?"),
    ("m", "a", "s", "red"),
    ("e", "b", "r", "doc", ["nap?"], " nap? ;"),
    ("m", "b", "e", "blue"),
    ("m", "c", "s", "green"),
    ("m", "c", "e", "black"),
]


def fixed_case(storylines, tempo=("100ms", 10**8)):
    return {"roles": FIXED_ROLES, "castdef": [("one", "bob", "doc"), ("many", "al", "doc", 2)],
            "tempo": tempo, "clauses": FIXED_TABLE + [("s", s) for s in storylines]}


def ncols(act):
    a = act.replace("_", "")
    return len(a) - 2 * a.count("+")


def valid_act(a):
    a = a.replace("_", "")
    return a != "" and a[0] != "+" and a[-1] != "+" and "++" not in a


def act_pool():
    """every valid act of at most 4 characters over {a,b,c,.,+} with at most 3 columns, plus `_` variants"""
    alpha = "abc.+"
    res = []

    def rec(s):
        if s and valid_act(s) and ncols(s) <= 3:
            res.append(s)
        if len(s) < 4:
            for ch in alpha:
                rec(s + ch)
    rec("")
    res += ["_", "_a", "a_", "a_+b", "a+_b", "._c", "a_b+c", "__"]
    return res


SMALL_ACTS = [".", "a", "b+c", ".a", "a.b", "c+.", "_", "a+b+c", "..c"]


def exhaustive_cases():
    """(storyline clause 1, storyline clause 2) over the small shapes."""
    P = act_pool()
    for x in P:
        yield [x]
    for x in P:
        for y in P:
            yield [x, y]
    two = [a + " " + b for a in SMALL_ACTS for b in SMALL_ACTS]
    cl = SMALL_ACTS + two
    for x in cl:
        for y in cl:
            if " " in x or " " in y:
                yield [x, y]


IDENT = ["bob", "amy", "kim", "zed", "n", "kv", "w"]
ACTN = ["go", "stop", "cure", "nap", "x1", "flip"]
MOODS = ["red", "blue", "clear", "m1", "dark"]
# a mood is an identifier (letters, symbols, marks, `_`, then also numbers): the last four are none
ODD_MOODS = ["\u00e9t\u00e9", "a<b", "_m", "m_1", "\u2116", "5", "2red", "red-ish", "x.y"]
# white space for strings.TrimSpace that is not ASCII
USPACE = ["\u00a0", "\u2003", "\u0085", "\u3000", "\u2028"]


def pick_mood(rng):
    return rng.pick(ODD_MOODS) if rng.chance(1, 12) else rng.pick(MOODS)
SCCH = "abcdefghXYZ0159"


def gen_act(rng, chars, maxcols):
    n = rng.range(1, maxcols)
    cols = []
    for _ in range(n):
        k = rng.pick([1, 1, 1, 2, 2, 3])
        pos = [rng.pick(list(chars) + ["."] * 2) for _ in range(k)]
        cols.append("+".join(pos))
    s = "".join(cols)
    # sprinkle `_`
    if rng.chance(1, 4):
        i = rng.below(len(s) + 1)
        s = s[:i] + "_" * rng.range(1, 2) + s[i:]
    return s


def gen_random_case(rng, size):
    nroles = rng.range(1, 3)
    roles = []
    for i in range(nroles):
        acts = rng.shuffle(ACTN)[:rng.range(1, 3)]
        roles.append(("r%d" % i if rng.chance(1, 2) else ["doc", "node", "client"][i], acts))
    castdef, names = [], set()
    for i in range(rng.range(1, 4)):
        nm = IDENT[i] if i < len(IDENT) else "p%d" % i
        r = rng.pick(roles)[0]
        if rng.chance(1, 4):
            castdef.append(("many", nm, r, rng.range(1, 3)))
        else:
            castdef.append(("one", nm, r))
    case = {"roles": roles, "castdef": castdef, "tempo": rng.pick(TEMPI), "clauses": []}
    cast = cast_of(case)
    chars = rng.shuffle(list(SCCH))[:rng.range(1, 2 + size)]
    table = []
    for c in chars:
        for _ in range(rng.pick([0, 1, 1, 1, 2, 3])):
            if rng.chance(1, 3):
                r, racts = rng.pick(roles)
                kind, name = "r", r
            else:
                name, r = rng.pick(cast)
                racts = dict(roles)[r]
                kind = "a"
            acts = [rng.pick(racts) + ("?" if rng.chance(1, 3) else "") for _ in range(rng.pick([0, 1, 1, 2, 3]))]
            segs = list(acts)
            if rng.chance(1, 4):
                segs.insert(rng.below(len(segs) + 1), " ")
            raw = (";" if rng.chance(1, 2) else " ; ").join(segs)
            table.append(("e", c, kind, name, acts, raw))
        if rng.chance(1, 3):
            table.append(("m", c, "s", pick_mood(rng)))
        if rng.chance(1, 3):
            table.append(("m", c, "e", pick_mood(rng)))
        if rng.chance(1, 8):
            table.append(("m", c, rng.pick(["s", "e"]), pick_mood(rng)))    # overrides
    table = rng.shuffle(table)
    defined = sorted(set(t[1] for t in table
                         if t[0] == "m" or t[2] == "a" or any(r == t[3] for _, r in cast)))
    story = []
    nact = rng.range(1, 2 + size // 2)
    use = defined or ["."]
    for _ in range(rng.range(1, 2 + size // 2)):
        parts = [gen_act(rng, use, 2 + size) for _ in range(rng.range(1, nact))]
        sep = " "
        text = sep.join(parts)
        if rng.chance(1, 6):
            text = text.replace(" ", "  ", 1)
        if rng.chance(1, 10):
            text = text + " "
        if rng.chance(1, 10):
            # Unicode white space at the ends of an act is trimmed like a blank; inside an act it is no scene
            u = rng.pick(USPACE)
            k = rng.below(4)
            text = u + text if k == 0 else text + u if k == 1 else text.replace(" ", u + " ", 1) if k == 2 else text.replace(" ", " " + u, 1)
        story.append(("s", text))
    # edits with literal patterns
    for _ in range(rng.pick([0, 0, 0, 1, 1, 2])):
        frm = rng.pick(list(use) + [".", "+", rng.pick(use) + "+", "." + rng.pick(use), rng.pick(use) + rng.pick(use)])
        to = rng.pick(["", ".", rng.pick(use), frm + rng.pick(use), rng.pick(use) + "+" + rng.pick(use), frm + ".", "_"])
        if rng.chance(1, 3):
            # patterns that see the boundaries of the acts: the edit works on the storyline joined by single blanks,
            # so `^` / `$` match once (not once per act) and a blank matches between two acts
            k = rng.below(4)
            if k == 0:
                story.insert(rng.range(0, len(story)), ("d", "^", rng.pick([".", rng.pick(use), rng.pick(use) + " "]), "raw"))
            elif k == 1:
                story.insert(rng.range(0, len(story)), ("d", "$", rng.pick([".", rng.pick(use), " " + rng.pick(use)]), "raw"))
            else:
                frm = rng.pick([" ", rng.pick(use) + " ", " " + rng.pick(use), rng.pick(use) + " " + rng.pick(use)])
                story.insert(rng.range(0, len(story)), ("d", frm, rng.pick(["", " ", "+", ".", " . ", rng.pick(use)])))
            continue
        story.insert(rng.range(0, len(story)), ("d", frm, to))
    # faults: make some storyline invalid
    fault = None
    if rng.chance(1, 7):
        i = rng.below(len(story))
        if story[i][0] == "s":
            k = rng.below(4)
            t = story[i][1]
            undefd = [c for c in SCCH if c not in defined]
            if k == 0:
                t, fault = "+" + t, "plus-begin"
            elif k == 1:
                t, fault = t + "+", "plus-end"
            elif k == 2 and len(t) > 1:
                j = rng.range(1, len(t) - 1)
                t, fault = t[:j] + "++" + t[j:], "plus-plus"
            elif undefd:
                j = rng.below(len(t) + 1)
                t, fault = t[:j] + rng.pick(undefd) + t[j:], "undefined-scene"
            story[i] = ("s", t)
    # order: mostly table first; sometimes a definition comes after a storyline
    if rng.chance(1, 6) and table:
        k = rng.range(1, min(2, len(table)))
        clauses = table[:-k] + story[:1] + table[-k:] + story[1:]
        fault = fault or "late-definition?"
    else:
        clauses = table + story
    case["clauses"] = clauses
    case["fault"] = fault
    return case


# ---- one batch of full-pipeline cases ----------------------------------------------------

def literal_replace(s, frm, to, raw=False):
    if raw:
        return to + s if frm == "^" else s + to if frm == "$" else s
    return s.replace(frm, to) if frm else s


class Pipeline:
    def __init__(self, rep, impl, model):
        self.rep, self.impl, self.model = rep, impl, model
        self.kdis, self.ofail, self.pdis = [], [], []

    def parse_many(self, texts):
        outs = self.impl.ask_many([json.dumps({"Op": "parse", "Args": {"Text": t, "SkipComments": True}}) for t in texts])
        return [json.loads(o) if o else {"harnessCrash": True} for o in outs]

    @staticmethod
    def real_of(r):
        if r.get("harnessCrash") or r.get("panicked") or r.get("Panicked"):
            return "panic"
        if not r.get("Ok"):
            return "err"
        return flatten_real(r.get("Play"))

    def oracle_lines(self, case, reals_for_prefix):
        """oracle request(s) of one case.  Without an edit: the spec from the source clauses.
        With edits: for the last edit at position j, the real storyline of the prefix [:j] is
        taken, the literal substitution applied from outside, and the spec is evaluated for the
        storyline *after the edit* followed by the remaining clauses."""
        cls = case["clauses"]
        js = [i for i, c in enumerate(cls) if c[0] == "d"]
        if not js:
            return cls
        j = js[-1]
        pre = reals_for_prefix[j]
        if not pre.get("Ok"):
            return None          # rejected before the edit: the prefix case itself is judged
        base = literal_replace(" ".join(pre.get("Story") or []), cls[j][1], cls[j][2], raw=len(cls[j]) > 3 and cls[j][3] == "raw")
        return [c for c in cls[:j] if c[0] in "em"] + [("b", base)] + cls[j + 1:]

    def run_batch(self, cases, label, check_printed=False):
        rep = self.rep
        # expand: every prefix that ends right before an edit is a case of its own
        allc = []
        for case in cases:
            cls = case["clauses"]
            for j, c in enumerate(cls):
                if c[0] == "d":
                    allc.append(dict(case, clauses=cls[:j], prefix_of=True))
            allc.append(case)
        texts = [render(c) for c in allc]
        reals = self.parse_many(texts)
        # index prefixes
        real_by_text = {t: r for t, r in zip(texts, reals)}
        ocls = []
        for case in allc:
            pre = {}
            for j, c in enumerate(case["clauses"]):
                if c[0] == "d":
                    pre[j] = real_by_text[render(dict(case, clauses=case["clauses"][:j]))]
            ocls.append(self.oracle_lines(case, pre))
        # the model knows literal edits only: a case with an anchored edit (`^`, `$`) is judged by the denotation oracle
        # alone (real storyline before the last edit, the substitution applied from outside)
        has_raw = [any(c[0] == "d" and len(c) > 3 for c in case["clauses"]) for case in allc]
        mres = self.model.ask_many([model_line(c) if not has_raw[i] else "C06 cols x61" for i, c in enumerate(allc)])
        olines, oidx = [], []
        for i, (case, r) in enumerate(zip(allc, reals)):
            ocl = ocls[i]
            if ocl is None:
                # the real code must have rejected the whole as well
                if self.real_of(r) != "err":
                    self.ofail.append(self.describe(case, r, "accepted although the storyline before the edit was rejected"))
                continue
            olines.append(model_line(case, "oracle", ocl, extra=self.real_of(r) + " "))
            oidx.append(i)
        ores = dict(zip(oidx, self.model.ask_many(olines)))
        same_req, same_idx = [], []
        for i, (case, r, m) in enumerate(zip(allc, reals, mres)):
            real = self.real_of(r)
            rep.case(("p", texts[i]))
            self.count(case, real, label)
            if has_raw[i]:
                rep.count("anchored-edit (oracle only)")
            elif m is None or m == "bad-op":
                self.kdis.append(dict(self.describe(case, r, "model driver: %s" % m)))
                continue
            elif m.startswith("err"):
                if real != "err":
                    self.kdis.append(self.describe(case, r, "model rejects (%s), real: %s" % (m, real[:60])))
            else:
                _, macts, msched = m.split(" ")
                if real != msched:
                    self.kdis.append(self.describe(case, r, "schedules differ", model=msched))
                else:
                    ra = ",".join(hexs(a) for a in (r.get("Story") or [])) or "-"
                    if ra != macts:
                        same_req.append("C06 samecols %s %s" % (macts, ra))
                        same_idx.append(i)
            o = ores.get(i)
            if o is not None and o != "ok":
                self.ofail.append(self.describe(case, r, "spec: " + str(o)[:400]))
            if check_printed and real not in ("err", "panic"):
                pr = flatten_printed(r.get("Steps") or "")
                rep.count("printed-listings-parsed-back")
                if pr != real:
                    self.pdis.append(self.describe(case, r, "printed listing denotes another schedule", printed=pr))
        for i, s in zip(same_idx, self.model.ask_many(same_req)):
            rep.count("merged-text-differs-same-columns" if s == "ok" else "merged-text-differs")
            if s != "ok":
                self.kdis.append(self.describe(allc[i], reals[i], "merged storyline has other columns"))
        return allc, reals, mres

    def count(self, case, real, label):
        rep = self.rep
        rep.count("cases-" + label)
        rep.count("real-" + ("accepted" if real not in ("err", "panic") else real))
        if case.get("fault"):
            rep.count("fault-" + case["fault"])
        st = [c for c in case["clauses"] if c[0] == "s"]
        rep.count("storyline-clauses-%d" % min(len(st), 4))
        if any(c[0] == "d" for c in case["clauses"]):
            rep.count("with-edit")
        for c in st:
            if "+" in c[1]:
                rep.count("clause-with-plus")
            if "." in c[1]:
                rep.count("clause-with-dot")
            if "_" in c[1]:
                rep.count("clause-with-underscore")
            if " " in c[1].strip():
                rep.count("clause-with-several-acts")
        if real not in ("err", "panic"):
            rep.count("acts-%d" % min(real.count("|") + 1 if real != "-" else 0, 4))
            if "M" in re.sub(r"x[0-9a-f]*", "", real):
                rep.count("plays-with-mood")
        if any(c[0] == "e" and c[2] == "r" for c in case["clauses"]):
            rep.count("with-every-role")
        if any(c[0] == "e" and not c[4] for c in case["clauses"]):
            rep.count("with-entail-without-action")
        rep.count("tempo-" + case["tempo"][0])

    @staticmethod
    def describe(case, r, why, **kw):
        d = {"why": why, "config": render(case), "real_story": r.get("Story"), "real_err": r.get("Err"),
             "real_schedule": Pipeline.real_of(r), "panic": r.get("Panic") or r.get("panic"),
             "clauses": [list(c) for c in case["clauses"]]}
        d.update(kw)
        return d


# ---- direct ops: merge and validation on arbitrary byte strings ---------------------------

def gen_bytes(rng, alpha, maxlen):
    return "".join(rng.pick(alpha) for _ in range(rng.below(maxlen + 1)))


def direct_ops(rep, impl, model, rng, tier):
    kdis, ofail = [], []
    alpha = "ab.+_"
    # exhaustive: all pairs of strings up to length 3 over {a . +} (ill-formed ones included: the
    # model follows the code on every input), then random longer ones
    small = [""]
    for n in range(1, 4):
        small += ["".join(p) for p in __import__("itertools").product("a.+", repeat=n)]
    pairs = [(x, y) for x in small for y in small]
    for _ in range(1500 if tier == "quick" else 30000):
        pairs.append((gen_bytes(rng, alpha, 8), gen_bytes(rng, alpha, 8)))
    got = impl.ask_many([json.dumps({"Op": "combineActs", "A": a, "B": b}) for a, b in pairs])
    mod = model.ask_many(["C06 comb %s %s" % (hexs(a), hexs(b)) for a, b in pairs])
    wf = [(i, p) for i, p in enumerate(pairs) if all(valid_act(s) or s == "" for s in p) and "_" not in p[0] + p[1]]
    orc = dict(zip([i for i, _ in wf], model.ask_many(
        ["C06 oracle-comb %s %s %s" % (hexs(p[0]), hexs(p[1]), hexs(json.loads(got[i])["res"])) for i, p in wf])))
    for i, (p, g, m) in enumerate(zip(pairs, got, mod)):
        rep.case(("c",) + p)
        rep.count("combineActs-pairs")
        g = json.loads(g)
        if g.get("panicked"):
            g = {"res": "<panic>"}
        if hexs(g["res"]) != m:
            kdis.append({"op": "combineActs", "a": p[0], "b": p[1], "real": g["res"], "model": unhex(m) if m and m.startswith("x") else m})
        if i in orc:
            rep.count("combineActs-wellformed-pairs")
            if orc[i] != "ok":
                ofail.append({"op": "combineActs", "a": p[0], "b": p[1], "real": g["res"], "spec": orc[i]})
    # storylines (lists of acts)
    sl = []
    for _ in range(300 if tier == "quick" else 5000):
        sl.append(([gen_bytes(rng, "ab.+", 5) for _ in range(rng.below(4))], [gen_bytes(rng, "ab.+", 5) for _ in range(rng.below(4))]))
    got = impl.ask_many([json.dumps({"Op": "combineStory", "A": a, "B": b}) for a, b in sl])
    enc = lambda l: ",".join(hexs(x) for x in l) or "-"
    mod = model.ask_many(["C06 combStory %s %s" % (enc(a), enc(b)) for a, b in sl])
    for p, g, m in zip(sl, got, mod):
        rep.case(("cs", json.dumps(p)))
        rep.count("combineStoryLines-pairs")
        g = json.loads(g).get("res") or []
        if enc(g) != m:
            kdis.append({"op": "combineStoryLines", "a": p[0], "b": p[1], "real": g, "model": m})
    # validation
    vs = []
    valpha = "ab.+_ c"
    for n in range(0, 4):
        vs += ["".join(p) for p in __import__("itertools").product("a+_ .", repeat=n)]
    for _ in range(1500 if tier == "quick" else 30000):
        vs.append(gen_bytes(rng, valpha + ("\t" if rng.chance(1, 10) else ""), 10))
    got = impl.ask_many([json.dumps({"Op": "validateStory", "Scenes": "ab", "Story": s}) for s in vs])
    mod = model.ask_many(["C06 validate %s %s" % (hexs("ab"), hexs(s)) for s in vs])
    res = []
    for g in got:
        g = json.loads(g)
        res.append("err" if g.get("err") else "ok:" + enc(g.get("res") or []))
    orc = model.ask_many(["C06 oracle-validate %s %s %s" % (hexs("ab"), hexs(s), r) for s, r in zip(vs, res)])
    for s, g, r, m, o in zip(vs, got, res, mod, orc):
        rep.case(("v", s))
        g = json.loads(g)
        rep.count("validate-" + ("rejected" if g.get("err") else "accepted"))
        mm = "err" if m.startswith("err") else "ok:" + m[3:]
        if m.startswith("err"):
            rep.count("validate-model-" + m[4:])
        if r != mm:
            kdis.append({"op": "validateStoryLine", "story": s, "real": g, "model": m})
        if o != "ok":
            ofail.append({"op": "validateStoryLine", "story": s, "real": g, "spec": o})
    return kdis, ofail


# ---- the check -----------------------------------------------------------------------------

def run(tier, seed):
    rep = Report(PROP, tier, seed, "proof")
    rep.assumptions = [
        "Go's regexp (clause grammar, `edit` patterns) is not modelled: an edit is an arbitrary function on the joined storyline; the correspondence uses literal patterns only",
        "configuration text is valid UTF-8 (the model works on its code points; scene shorthands are ASCII letters/digits, strings.TrimSpace trims Unicode white space)",
        "the reading of a compiled play as a schedule (a scene starts no sooner than waitUntil and after the scene before it; waitUntil = 0 means no wait) is prompt.go's loop, read by hand",
        "role/cast/action sections are parsed by code outside the model; the model receives the cast (actor, role) and the roles' action names"]
    try:
        build_go()
        build_driver()
    except BuildError as e:
        rep.obligation("build", "K", False, e.output)
        rep.violation("build failed: " + e.what, {"output": e.output[-4000:], "broken": "K-C06 (build)"}, nofail=True)
        return rep.finish("./check C06", "n/a")
    impl, model = Impl(), Model()
    ok, info = standard_proof_step(rep, PROP, thorough=(tier == "thorough"))
    rng = SplitMix(seed)
    pl = Pipeline(rep, impl, model)

    # corpus: the manual's examples and the shapes the code treats specially
    corpus = [["a..b......a.b."], ["abc ..c"], [". b", ". c"], ["..a bc", "a b c"], ["a+.", "b+c.c"], [".+a", "."],
              ["c", "a"], ["a+c", "c+a"], ["c.c", ".c"], ["_a_ _ b_+_c"], ["a  b ", " c"], ["."], ["_"], ["c+."]]
    pl.run_batch([fixed_case(s, rng.pick(TEMPI)) for s in corpus], "corpus", check_printed=True)

    # exhaustive small shapes (thorough: all; quick: a seeded sample)
    ex = list(exhaustive_cases())
    n_ex_total = len(ex)
    if tier == "quick":
        ex = [ex[i] for i in sorted(set(rng.below(len(ex)) for _ in range(9000)))]
    for i in range(0, len(ex), 4000):
        pl.run_batch([fixed_case(s) for s in ex[i:i + 4000]], "small-shapes", check_printed=(i == 0))
    # random larger ones
    nrand = 3000 if tier == "quick" else 60000
    for i in range(0, nrand, 2000):
        cases = [gen_random_case(rng, rng.range(1, 4)) for _ in range(min(2000, nrand - i))]
        pl.run_batch(cases, "random", check_printed=True)

    dk, do = direct_ops(rep, impl, model, rng, tier)

    kdis = pl.kdis + dk
    ofail = pl.ofail + do
    rep.sample({"config": render(fixed_case(["..a bc", "a b c"])),
                "model": model.ask(model_line(fixed_case(["..a bc", "a b c"]))),
                "spec": model.ask(model_line(fixed_case(["..a bc", "a b c"]), "denote"))})
    rep.sample({"combineActs": ["..a", "a"], "model": unhex(model.ask("C06 comb %s %s" % (hexs("..a"), hexs("a"))))})

    rep.obligation("K-C06a: parse+compileV2 vs model, flattened to schedules (small shapes %s of %d, random %d)"
                   % ("all" if tier == "thorough" else "sample", n_ex_total, nrand), "K", not pl.kdis, json.dumps(pl.kdis[:2])[:1800])
    rep.obligation("K-C06b: combineActs / combineStoryLines / validateStoryLine vs model on byte strings", "K", not dk, json.dumps(dk[:3])[:1800])
    rep.obligation("K-C06c: the listing printed by -p denotes the compiled schedule", "K", not pl.pdis, json.dumps(pl.pdis[:2])[:1800])
    rep.obligation("O-C06: denote(source clauses) = real compiled play; column union; validity", "O", not ofail, json.dumps(ofail[:2])[:1800])

    if ofail:
        f = ofail[0]
        rep.violation("the real compiled play is not what the storyline clauses denote: %s" % f.get("why", f.get("op")),
                      {"failing": ofail[:10]}, tags={"kind": f.get("op", "compile")})
    elif pl.pdis:
        rep.violation("the play printed by -p is not the compiled play", {"failing": pl.pdis[:10]}, tags={"kind": "print"})
    else:
        if not ok:
            rep.violation("proof obligations of C06 no longer check",
                          {"broken_theorems": info["failed"], "lean_output": info["output"][-3000:]}, nofail=True)
        elif kdis:
            rep.violation("correspondence K-C06 disagrees", {"broken": "K-C06", "disagreements": kdis[:10]}, nofail=True)
    impl.close()
    model.close()
    return rep.finish("cd lean && lake build ShkModel.Props.C06 && #print axioms",
                      "small shapes: every pair of storyline clauses over acts of <= 4 characters of {a,b,c,.,+} with <= 3 columns (+ `_` variants), "
                      "and two-act clauses over 9 acts, against a fixed scene table with entails, `every role`, moods; random: roles, cast, scene tables, "
                      "1-4 clauses of 1-4 acts, literal edits, injected faults; direct merge/validation on all strings <= 3 over {a,.,+} and random ones",
                      exhaustive=(tier == "thorough"))


def replay(path):
    d = json.load(open(path))
    build_go()
    impl = Impl()
    rc = 0
    for f in d.get("replay", {}).get("failing", []) + d.get("replay", {}).get("disagreements", []):
        if "config" in f:
            r = impl.call("parse", Args={"Text": f["config"], "SkipComments": True})
            now = Pipeline.real_of(r)
            print("config:\n%s\nreal schedule now: %s\nrecorded: %s\n(%s)" % (f["config"], now, f.get("real_schedule"), f.get("why")))
            rc = 1
    impl.close()
    return rc
