"""C07 — every play terminates, cleans up twice and leaves no process behind."""
import json, re
import os
import signal
import stat
import time
from concurrent.futures import ThreadPoolExecutor
from .common import *
from . import e2e, playgen

PROP = "C07"
BODY_S = 4          # how long the scripted command runs when nobody stops it


ORPHAN_S = "4.0737"      # the (recognisable) duration of the child an `orphan` script leaves in the background


def orphan_pids():
    """children of `orphan` scripts that are still running: `sleep 4.0737` (found by their command line)"""
    res = []
    for pid in os.listdir("/proc"):
        if not pid.isdigit():
            continue
        try:
            cl = open("/proc/%s/cmdline" % pid, "rb").read().split(b"\0")
        except OSError:
            continue
        if len(cl) >= 2 and cl[0].endswith(b"sleep") and cl[1] == ORPHAN_S.encode():
            res.append(int(pid))
    return res


def script_text(out, hup):
    if out == "orphan":
        # the shell exits at once; a child it started in the background goes on and holds the output
        return "#!/bin/bash\nsleep %s &\necho started\nexit 0\n" % ORPHAN_S
    lines = ["#!/bin/bash"]
    if out == "redirect":
        lines.append("exec >>cmd.log 2>&1")
    if hup == "ignore":
        lines.append("trap '' HUP")
    lines.append("echo started")
    lines.append("sleep %d" % BODY_S)
    lines.append("echo finished")
    return "\n".join(lines) + "\n"


def runner_scenarios():
    res = []
    for out in ("redirect", "keep"):
        for hup in ("default", "ignore"):
            for kind in ("stop", "cancel", "term", "timeout"):
                for inter in (True, False):
                    res.append({"out": out, "hup": hup, "kind": kind, "interruptible": inter})
    return res


def classify(ms):
    if ms < 1500:
        return "immediate"
    if 1900 <= ms < BODY_S * 1000 - 300:
        return "after-grace"
    return "completion"


def leftover(play_id):
    """processes still carrying the run's marker variable"""
    res = []
    needle = ("VERIF_PLAY=" + play_id).encode()
    for pid in os.listdir("/proc"):
        if not pid.isdigit():
            continue
        try:
            env = open("/proc/%s/environ" % pid, "rb").read()
            if needle in env:
                cmdline = open("/proc/%s/cmdline" % pid, "rb").read().replace(b"\0", b" ").decode("utf-8", "replace")
                res.append((int(pid), cmdline.strip()))
        except OSError:
            pass
    return res


CLEAN = 'echo "$(basename $PWD)" >> ../../../../cleanup.ledger'
LONG = playgen.action_cmd("long", 20)


def e2e_play(spot="", cleanup=CLEAN, scene_x="long", extra_actions="", audience="", second_line=""):
    out = ["role r", "  :ok true", "  :bad false", "  :long " + LONG, "  :quick " + playgen.action_cmd("quick", 0.05)]
    if extra_actions:
        out.append(extra_actions)
    if spot:
        out.append("  spotlight " + spot)
    if cleanup:
        out.append("  cleanup " + cleanup)
    out += ["end", "cast", "  a plays r", "  b plays r", "end", "script", "  tempo 50ms",
            "  scene q entails for a: quick", "  scene q mood ends blue", "  scene x entails for a: " + scene_x]
    if second_line:
        out.append("  scene x entails for b: " + second_line)
    out += ["  scene z entails for a: quick", "  storyline qxz", "end"]
    if audience:
        out.append(audience)
    return "\n".join(out) + "\n"


def run(tier, seed):
    rep = Report(PROP, tier, seed, "proof")
    rep.assumptions = ["a component of the conductor terminates once cancelled or once its upstream has terminated (assumption A): exercised by fault injection, not proved",
                       "process reaping, signals and process groups are operating-system behaviour",
                       "time classes: immediate < 1.5 s, after the 2 s grace, at completion of the command"]
    try:
        build_go()
        build_driver()
    except BuildError as e:
        rep.obligation("build", "K", False, e.output)
        rep.violation("build failed: " + e.what, {"output": e.output[-4000:], "broken": "K-C07 (build)"}, nofail=True)
        return rep.finish("./check C07", "n/a")
    model = Model()
    ok, info = standard_proof_step(rep, PROP, thorough=(tier == "thorough"))
    rng = SplitMix(seed)
    kdis, ofail = [], []

    # ---- K-C07a: the real runner vs the runner model --------------------------------------------
    scen = runner_scenarios()
    if tier == "quick":
        pick = [s for s in scen if s["out"] == "redirect" and s["hup"] == "default" and s["interruptible"]]
        pick += [s for s in scen if s["out"] == "redirect" and s["hup"] == "ignore" and s["kind"] in ("stop", "timeout") and s["interruptible"]]
        pick += [s for s in scen if s["out"] == "keep" and s["hup"] == "default" and s["kind"] in ("stop", "cancel") and s["interruptible"]]
        pick += [s for s in scen if s["out"] == "redirect" and s["hup"] == "default" and s["kind"] in ("stop", "timeout") and not s["interruptible"]]
        scen = pick

    def one(sc):
        d = tempfile.mkdtemp(prefix="verif-c07-")
        try:
            sp = os.path.join(d, "cmd.sh")
            with open(sp, "w") as f:
                f.write(script_text(sc["out"], sc["hup"]))
            os.chmod(sp, 0o755)
            impl = Impl()
            evs = [] if sc["kind"] == "timeout" else [{"AtMs": 300, "Kind": sc["kind"]}]
            r = impl.call("runCommand", Script=sp, WorkDir=d, TimeoutMs=300 if sc["kind"] == "timeout" else 0,
                          Interruptible=sc["interruptible"], UseTermCh=sc["kind"] == "term", Events=evs, HangLimitMs=(BODY_S + 4) * 1000)
            impl.close()
            return r
        finally:
            shutil.rmtree(d, ignore_errors=True)

    with ThreadPoolExecutor(max_workers=8) as ex:
        outs = list(ex.map(one, scen))
    # the shell of the command has exited, a child of it holds the output: asked to stop, the runner signals the process
    # group all the same (one scenario at a time: the children are recognised by their command line)
    for kind in ("stop", "cancel", "term"):
        sc = {"out": "orphan", "hup": "default", "kind": kind, "interruptible": True}
        for pid in orphan_pids():
            os.kill(pid, signal.SIGKILL)
        r = one(sc)
        time.sleep(0.3)
        left = orphan_pids()
        for pid in left:
            os.kill(pid, signal.SIGKILL)
        scen.append(sc)
        outs.append(r)
        rep.count("runner:orphaned child scenarios")
        if left:
            ofail.append({"what": "the shell of a command exited leaving a child in the background; asked to stop by %s the runner returned after %s ms and the child was still running" % (kind, r.get("ElapsedMs")),
                          "detail": {"scenario": sc, "script": script_text("orphan", "default"), "left": len(left)},
                          "tag": {"site": "runner", "out": "orphan", "kind": kind}})
    for sc, r in zip(scen, outs):
        mev = (["eof"] if sc["out"] == "redirect" else ["line", "exitKeep"] if sc["out"] == "orphan" else ["line"]) + [{"timeout": "cancel"}.get(sc["kind"], sc["kind"])]
        m1 = model.ask("C07 runner %d %d 1 %s" % (sc["interruptible"], sc["kind"] == "term", ",".join(mev)))
        m2 = model.ask("C07 runner %d %d 1 %s" % (sc["interruptible"], sc["kind"] == "term", ",".join(mev + ["twoSec"])))
        if "hup=true" in m1 and sc["hup"] == "default":
            exp = "immediate"
        elif "killed=true" in m1:
            exp = "immediate"
        elif "hup=true" in m1 and "killed=true" in m2:
            exp = "after-grace"
        else:
            exp = "completion"
        got = "hung" if r.get("Hung") or r.get("harnessCrash") else classify(r["ElapsedMs"])
        rep.case(("runner", json.dumps(sc, sort_keys=True)))
        rep.count("runner:" + exp)
        if got != exp:
            # is it the model or the property?  the property: asked to stop => interrupted
            asked = "asked=true" in m1
            entry = {"scenario": sc, "elapsed_ms": r.get("ElapsedMs"), "observed": got, "model": exp, "model_state": m1}
            if asked and got in ("completion", "hung"):
                ofail.append({"what": "a %s command (%s output, SIGHUP %s) asked to stop by %s ran on for %s ms" % (
                    "interruptible" if sc["interruptible"] else "non-interruptible", sc["out"], sc["hup"], sc["kind"], r.get("ElapsedMs")),
                    "detail": entry, "tag": {"site": "runner", "out": sc["out"], "kind": sc["kind"]}})
            else:
                kdis.append(entry)
    rep.sample({"runner_scenario": scen[0], "elapsed_ms": outs[0].get("ElapsedMs")})

    # ---- O-C07b: fault injection on the real binary -----------------------------------------------------
    faults = []

    SIGNAME = {signal.SIGINT: "int", signal.SIGTERM: "term", signal.SIGHUP: "hup"}

    def add(name, text, bound_s, cleanups, sig=None, args=None, points=None, expect_fail=None, allow_left=False, body_err=None, env=None, tty_cols=None, more_signals=None, start_ignoring=None):
        """cleanups: 2 = every cleanup succeeds both times, 1 = the initial cleanups fail, None = not judged.
        body_err: does the play proper end with an error other than a cancellation (None = depends on the schedule).
        The expected number of cleanup runs and the expected result come from the life-cycle model (Model/Life.lean,
        theorems init_cleanup_each_once, final_cleanup_each_once, exit_status)."""
        ncast = text.count(" plays ")
        want_cl, want_fail = None, expect_fail
        if cleanups is not None:
            bits_i = ("1" if cleanups == 2 else "0") * ncast
            ans = model.ask("C07 life %s %s %d %s" % (bits_i, "1" * ncast, 1 if body_err else 0, SIGNAME.get(sig[1], "none") if sig else "none"))
            m = dict(kv.split("=") for kv in (ans or "").split())
            if "init" not in m:
                kdis.append({"life-model": ans})
            else:
                want_cl = int(m["init"]) + int(m["final"])
                if body_err is not None or m["fail"] == "true":
                    # (with body_err unknown the model's `fail=true` still holds: it was computed with body_err = false)
                    mf = m["fail"] == "true"
                    if expect_fail is not None and expect_fail != mf:
                        kdis.append({"life-model": ans, "scenario": name, "expected by the scenario": expect_fail})
                    want_fail = mf
        faults.append({"name": name, "play": e2e.Play(text, args=args, timeout=bound_s + 12, sigspec=sig, points=points, keep=True, env=env, tty_cols=tty_cols, more_signals=more_signals, start_ignoring=start_ignoring),
                       "bound": bound_s, "cleanups": want_cl, "expect_fail": want_fail, "allow_left": allow_left})

    add("SIGINT during a long action", e2e_play(), 8, 2, sig=(1.0, signal.SIGINT), expect_fail=True)
    add("SIGTERM during a long action", e2e_play(), 8, 2, sig=(1.0, signal.SIGTERM))
    # cleanups are not interruptible: after a signal the final cleanup still runs to completion
    add("SIGTERM during a long action, cleanup takes a second", e2e_play(cleanup="sleep 1; " + CLEAN), 12, 2, sig=(1.5, signal.SIGTERM))
    add("SIGINT during a long action, cleanup takes a second", e2e_play(cleanup="sleep 1; " + CLEAN), 12, 2, sig=(1.5, signal.SIGINT), expect_fail=True)
    add("a concurrent line fails while a long action runs", e2e_play(second_line="bad"), 8, 2, expect_fail=True, body_err=True)
    add("audit foul with -S during a long action", e2e_play(audience="audience\n  bob audits throughout\n  bob expects always: mood == 'clear'\nend\n"), 8, 2, args=["-S"], expect_fail=True, body_err=True)
    add("evaluation error", e2e_play(scene_x="quick", audience="audience\n  bob audits throughout\n  bob expects always: t < 'a'\nend\n"), 8, 2, expect_fail=True, body_err=True)
    # an evaluation error that only shows in the FINAL audit round (after the prompter and the spotlights have
    # finished: shutdown stage 3): the collector must still be told to terminate
    add("evaluation error in the final audit round", e2e_play(scene_x="slow12", extra_actions="  :slow12 sleep 1.2",
        audience="audience\n  judge audits throughout\n  judge computes y as t > 0.9 ? sqrt(mood) : 0\n  judge watches y\nend\n"), 10, 2, expect_fail=True, body_err=True)
    # a spotlight whose shell exits at once while a child it started in the background goes on (and holds the output):
    # when the play ends the child must be stopped like any other member of the command's process group (fix bfee10c:
    # the group was looked up through its leader, which is gone)
    add("spotlight whose shell has exited, leaving a child in the background",
        e2e_play(scene_x="slow12", extra_actions="  :slow12 sleep 1.2", spot="sleep 43 & exit 0"), 10, 2)
    add("spotlight whose shell has exited, leaving a child in the background (SIGTERM)",
        e2e_play(spot="sleep 43 & exit 0"), 8, 2, sig=(1.0, signal.SIGTERM))
    # every spotlight fails at once while the prompter still has mood changes to announce (the conductor is held back
    # before it looks at the components' results): the play must end with the spotlight's failure, not crash
    add("the only spotlight fails while the prompter still announces mood changes",
        e2e_play(scene_x="quick", spot="exit 1").replace("  scene z entails for a: quick", "  scene z entails for a: quick\n  scene z mood starts blue\n  scene x mood starts red"),
        10, 2, expect_fail=True, body_err=True, points="conduct.stage1=sleep:1s")
    # a termination signal AFTER the play proper, while the results are being uploaded by a tool that hangs:
    # "at any moment" includes that phase
    slowbin = tempfile.mkdtemp(prefix="verif-c07-bin-")
    with open(os.path.join(slowbin, "scp"), "w") as fscp:
        fscp.write("#!/bin/bash\nsleep 9\n")
    os.chmod(os.path.join(slowbin, "scp"), 0o755)
    add("SIGTERM while a hanging upload tool runs", e2e_play(scene_x="quick"), 6, None, sig=(2.0, signal.SIGTERM), args=["--upload-url", "scp://host/results"],
        env={"PATH": slowbin + ":" + os.environ["PATH"]}, allow_left=True)
    # the shell of an interrupted command dies at once on SIGHUP but a child in its process group ignores it
    add("spotlight whose child ignores SIGHUP (the shell itself does not)", e2e_play(scene_x="quick", spot="(trap '' HUP; exec sleep 100) & echo started; wait"), 10, 2)
    add("interrupted action whose child ignores SIGHUP", e2e_play(scene_x="hupkid", extra_actions="  :hupkid (trap '' HUP; exec sleep 100) & wait", second_line="bad"), 10, 2, expect_fail=True, body_err=True)
    for _ in range(3 if tier == "quick" else 12):
        add("spotlight ignoring SIGHUP", e2e_play(scene_x="quick", spot="trap '' HUP; sleep 100"), 8, 2, expect_fail=None)
    add("spotlight with children", e2e_play(scene_x="quick", spot="sleep 100 & sleep 100 & wait"), 8, 2)
    add("initial cleanup fails", e2e_play(scene_x="quick", cleanup=CLEAN + "; exit 1"), 8, 1, expect_fail=True)
    add("nothing goes wrong", e2e_play(scene_x="quick"), 8, 2, expect_fail=False, body_err=False)
    add("action ignoring SIGHUP, SIGINT", e2e_play(scene_x="stub", extra_actions="  :stub trap '' HUP; sleep 20"), 10, 2, sig=(1.0, signal.SIGINT), expect_fail=True)
    # "at any moment" includes a play that has been running for more than a minute: the one-minute hard limit of the
    # shutdown counts from the signal, not from the start of the play (the play is put first: it is the longest)
    add("SIGTERM after 63 s of play, action ignoring SIGHUP", e2e_play(scene_x="stub63", extra_actions="  :stub63 trap '' HUP; sleep 200"), 63 + 15, 2, sig=(63.0, signal.SIGTERM))
    faults.insert(0, faults.pop())
    # the signal lands after the prompter's last look at the stop request and before the lines of the scene are handed
    # to the stopper, which refuses them: the scene must end with that refusal, not wait for tasks that never started
    add("SIGTERM between the prompter's stop check and the start of a scene's lines", e2e_play(scene_x="quick"), 10, 2, sig=(0.5, signal.SIGTERM), points="prompt.scene=sleep:1s")
    # whatever goes wrong includes the terminal the narration is written to: narrow ones (the witness / judge lines
    # are cut to a third of the width)
    for cols in (1, 4, 8, 30):
        add("an audit foul narrated on a terminal %d columns wide" % cols,
            e2e_play(scene_x="quick", spot="echo 'val 9'; sleep 30", audience="audience\n  bob watches a v\n  bob audits throughout\n  bob expects always: t < 0\nend\n").replace(
                "  spotlight ", "  signal v scalar at (?P<ts_now>)val (?P<scalar>\\d+$)\n  spotlight "),
            10, 2, expect_fail=True, body_err=True, tty_cols=cols)
    # a second signal during the graceful shutdown means "terminate forcefully" (the narration says so): the process
    # must be gone shortly after, also when that signal was ignored when it was started (`shakespeare … &` in a
    # script, nohup).  Cleanup and leftovers are not judged: the forceful end is upstream's documented choice.
    for sg, nm in ((signal.SIGINT, "SIGINT"), (signal.SIGHUP, "SIGHUP")):
        for ign in (False, True):
            add("a second %s during the graceful shutdown%s" % (nm, ", the signal ignored when the process started" if ign else ""),
                e2e_play(cleanup="sleep 3; " + CLEAN), 10, None, sig=(1.0, sg), more_signals=[(0.4, sg)], start_ignoring=[sg] if ign else None,
                expect_fail=None, allow_left=True)
    add("a completed action left a process in the background", e2e_play(scene_x="bg", extra_actions="  :bg (setsid sleep 7 >/dev/null 2>&1 &) ; true"), 8, 2, expect_fail=False, allow_left=True, body_err=False)
    add("SIGINT while the conductor is between shutdown stages", e2e_play(scene_x="quick"), 8, 2, sig=(0.45, signal.SIGINT), points="conduct.stage2=sleep:600ms")
    add("SIGTERM while the collector is still draining", e2e_play(scene_x="quick"), 8, 2, sig=(0.5, signal.SIGTERM), points="collector.loop=sleep:150ms")
    # a foul that is only detected after the prompter has finished (shutdown stage 2), while a spotlight
    # floods the audition with a backlog when it is told to hang up: the channels to the dead collector fill up
    chatty = ("role srv\n  spotlight trap 'sleep 0.3 || true; for i in $(seq 1 40); do echo \"val 9\"; done; exit 0' HUP; "
              "while true; do echo \"val 1\"; sleep 0.2; done\n  signal v scalar at (?P<ts_now>)val (?P<scalar>\\d+$)\n"
              "  cleanup " + CLEAN + "\nend\ncast\n  a plays srv\n  b plays srv\nend\nscript\n  tempo 300ms\n  storyline ...\nend\n"
              "audience\n  bob watches a v\n  bob audits throughout\n  bob expects always: [a v] < 5\nend\n")
    for _ in range(3 if tier == "quick" else 10):
        # (whether the backlog arrives before the 2 s grace ends depends on the load: the exit status is not judged)
        add("-S foul after the prompter finished, spotlight flushing a backlog on SIGHUP", chatty, 10, 2, args=["-S"], expect_fail=None)
    add("-S foul after the prompter finished, one actor", chatty.replace("  b plays srv\n", ""), 10, 2, args=["-S"], expect_fail=None)
    add("the same without -S", chatty, 10, 2, expect_fail=None)
    if tier == "thorough":
        add("final cleanup hangs (10 s time-out)", e2e_play(scene_x="quick", cleanup="if [ -e ran ]; then " + CLEAN + "; sleep 40; fi; touch ran; " + CLEAN), 16, None, expect_fail=True)
        for t_ in (0.2, 0.5, 0.8, 1.5):
            add("SIGINT at %.1f s" % t_, e2e_play(), 8, 2, sig=(t_, signal.SIGINT), expect_fail=True)
            add("SIGTERM at %.1f s" % t_, e2e_play(second_line="quick"), 8, 2, sig=(t_, signal.SIGTERM))
        for st in ("stage1", "stage3", "stage4"):
            add("SIGINT at conductor %s" % st, e2e_play(scene_x="quick"), 8, 2, sig=(0.5, signal.SIGINT), points="conduct.%s=sleep:700ms" % st)
    else:
        add("final cleanup hangs (10 s time-out)", e2e_play(scene_x="quick", cleanup="if [ -e ran ]; then " + CLEAN + "; sleep 40; fi; touch ran; " + CLEAN), 16, None, expect_fail=True)
    def run_and_scan(pl):
        # what a play left behind is looked at as soon as it has ended (not when the longest play has)
        r_ = pl.run()
        time.sleep(0.4)
        r_["left"] = leftover(os.path.basename(r_["cwd"]))
        return r_
    with ThreadPoolExecutor(max_workers=8) as ex:
        results = list(ex.map(run_and_scan, [f["play"] for f in faults]))
    shutil.rmtree(slowbin, ignore_errors=True)
    for f, r in zip(faults, results):
        rep.case(("fault", f["name"]))
        rep.count("fault-plays")
        problems = []
        if r["timed_out"] or r["wall"] > f["bound"]:
            problems.append("did not terminate within %d s (took %.1f s%s)" % (f["bound"], r["wall"], ", killed by the harness" if r["timed_out"] else ""))
        cl = 0
        try:
            cl = len(open(os.path.join(r["cwd"], "cleanup.ledger")).read().split())
        except OSError:
            pass
        ncast = f["play"].text.count(" plays ")
        if f["cleanups"] is not None and cl != f["cleanups"]:
            problems.append("cleanup commands ran %d times for %d actors, the life-cycle model prescribes %d" % (cl, ncast, f["cleanups"]))
        elif f["cleanups"] is not None and ncast:
            # ... each in its own actor's directory, every actor the same number of times
            try:
                who = open(os.path.join(r["cwd"], "cleanup.ledger")).read().split()
            except OSError:
                who = []
            cast = re.findall(r"^  (\S+) plays ", f["play"].text, re.M)
            per = {a: who.count(a) for a in cast}
            if any(v != f["cleanups"] // ncast for v in per.values()):
                problems.append("cleanup runs per actor directory %s, every actor is due %d" % (per, f["cleanups"] // ncast))
        left = r["left"]
        if left and not f["allow_left"]:
            problems.append("processes left running: %s" % left[:4])
        if f["allow_left"] and not left:
            rep.count("background-process-already-gone")
        for pid, _ in left:
            try:
                os.kill(pid, signal.SIGKILL)
            except OSError:
                pass
        if f["expect_fail"] is not None and (r["rc"] != 0) != f["expect_fail"]:
            problems.append("exit status %s" % r["rc"])
        if problems:
            ofail.append({"what": f["name"] + ": " + "; ".join(problems), "config": f["play"].text, "wall_s": r["wall"], "rc": r["rc"],
                          "stdout": (r["stdout"] or "")[-1500:], "stderr": (r["stderr"] or "")[-800:],
                          "tag": {"site": "play", "fault": f["name"].split(" (")[0] if "SIGINT at" not in f["name"] and "SIGTERM at" not in f["name"] else f["name"].split(" at ")[0] + " at t"}})
        f["play"].cleanup()
    rep.sample({"fault": faults[0]["name"], "wall_s": round(results[0]["wall"], 2), "rc": results[0]["rc"]})
    rep.obligation("K-C07a: real runActorCommandWithConsumer vs runner model on %d scripted commands (time class)" % len(scen), "K", not kdis, json.dumps(kdis[:3])[:1500])
    unknown_ofail = [f for f in ofail if rep.match_known(f["tag"]) is None]
    known_hit = sorted({f["tag"].get("fault", "") for f in ofail if rep.match_known(f["tag"]) is not None})
    rep.obligation("O-C07: asked-to-stop commands are interrupted; %d fault plays terminate in time, clean up as prescribed, leave no marked process%s"
                   % (len(faults), "; the fault plays of the known finding(s) excepted (they fail as recorded: %s)" % ", ".join(known_hit) if known_hit else ""),
                   "O", not unknown_ofail, json.dumps(unknown_ofail[:3])[:1800])
    if ofail:
        seen = set()
        for f in ofail:
            k = json.dumps(f["tag"], sort_keys=True)
            if k in seen:
                continue
            seen.add(k)
            rep.violation(f["what"][:400], f, tags=f["tag"])
    if not unknown_ofail:
        if not ok:
            rep.violation("proof obligations of C07 no longer check", {"broken_theorems": info["failed"], "lean_output": info["output"][-3000:]}, nofail=True)
        elif kdis:
            rep.violation("correspondence K-C07a disagrees", {"broken": "K-C07a", "disagreements": kdis[:5]}, nofail=True)
    model.close()
    return rep.finish("cd lean && lake build ShkModel.Props.C07 && #print axioms",
                      "scripted commands (output kept / redirected, SIGHUP honoured / ignored) x stop / cancel / term / time-out x interruptible, through the real runner; fault plays on the real binary: signals at several instants and shutdown stages, failing and hanging commands, -S, evaluation error, SIGHUP-ignoring and forking spotlights")
