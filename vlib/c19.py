"""C19 — the plot script shows exactly the data that was collected.

Claim level: PARTIAL.  gnuplot and the rendering are out of scope (gnuplot is not even installed
here): the check stops at the text of `plots/plot.gp`, `plots/lastplot.gp` and `plots/runme.gp`,
read back into an abstract plot (x range, action lanes, boxes with their curves and styles, mood
rectangles, act arrows, the zoomed copy, the `load` list).

K-C19  the Lean model of plot.go (`plotModel`)            vs the scripts the real binary wrote
O-C19  the Lean specification of the property (`plotSpec`) vs the scripts the real binary wrote
K-C19r the Lean model of expandTimeRange + assemble        vs MinTime / MaxTime of result.js
K-C19p the Lean model of assemble's search                 vs Repeat.StartTime of result.js
O-C19p the specification (next-to-last start of the repeated act) vs Repeat.StartTime of result.js
The facts handed to model and specification come from the CSV files (who has rows), result.js
(MinTime, MaxTime, Repeat), the audition's log (instants of the mood changes, end of the audition)
and the narration (sequence of act starts) — never from the program's own `hasData` flags.
Act instants are recorded nowhere but in the script itself; they are read from the arrows of
plot.gp and checked against bounds derived from the action rows (after the last action of the
previous act, before the first action of the act), their number against the narration, and the
start of the repeated section against result.js.
"""
import json
import os
import re
from fractions import Fraction
from .common import *
from . import e2e

PROP = "C19"
UP = "../../../../"          # from an actor's work dir (out/<run>/artifacts/<actor>) to the play's cwd
SIGS = [("ev", "event", r"(?P<ts_now>)ev=(?P<event>\S+)"),
        ("val", "scalar", r"(?P<ts_now>)val=(?P<scalar>\S+)"),
        ("dl", "delta", r"(?P<ts_now>)dl=(?P<delta>\S+)"),
        ("late", "scalar", r"at (?P<ts_deltasecs>) late=(?P<scalar>\S+)"),
        ("past", "event", r"(?P<ts_rfc3339>) past=(?P<event>\S+)")]
SIGKIND = {n: ("e" if t == "event" else "s") for n, t, _ in SIGS}
MOODS = ["red", "blue", "green", "yellow", "clear"]
TOL = Fraction(1, 1000000)


# ---------------------------------------------------------------------------------------------
# generated plays
# ---------------------------------------------------------------------------------------------
def gen_play(rng, idx=0):
    """-> dict(text, extra_files, actors, members, repeat_act, expected_acts)"""
    nact = rng.range(1, 4)
    actors = []
    for i in range(nact):
        role = "r" if (i == 0 or rng.chance(2, 3)) else "q"
        actors.append({"name": "abcd"[i], "role": role, "acting": rng.chance(2, 3), "feed": []})
    if rng.chance(1, 12):
        for a in actors:
            a["acting"] = False           # nobody acts: the action box says so
    neg = rng.chance(1, 6)
    files = {}
    for a in actors:
        if a["role"] != "r":
            continue
        lines = []
        if rng.chance(3, 4):
            for _ in range(rng.range(1, 3)):
                k = rng.below(10)
                if k < 3:
                    lines.append("ev=%s" % rng.pick(["ping", "pong", "x_y"]))
                elif k < 6:
                    lines.append("val=%d" % rng.range(0, 9))
                elif k < 8:
                    lines.append("dl=%d" % rng.range(0, 9))
                else:
                    lines.append("at %d.%02d late=%d" % (rng.range(0, 12), rng.below(100), rng.range(0, 9)))
        a["feed"] = lines
        files["feed-%s.txt" % a["name"]] = "".join(l + "\n" for l in lines)
        if neg and rng.chance(1, 2):
            files["neg-%s" % a["name"]] = "1\n"
            a["neg"] = True
    spot = ("cat %sfeed-$(basename $PWD).txt; if [ -e %sneg-$(basename $PWD) ]; then "
            "echo \"$(date -u -d '-%d seconds' +%%Y-%%m-%%dT%%H:%%M:%%S.%%NZ) past=old\"; fi; sleep 100" % (UP, UP, rng.range(1, 3)))
    out = ["role r", "  :tick true", "  :nap sleep 0.02", "  :bad false", "  spotlight " + spot]
    for n, t, rx in SIGS:
        out.append("  signal %s %s at %s" % (n, t, rx))
    out += ["end", "role q", "  :tick true", "  :nap sleep 0.02", "  :bad false", "end", "cast"]
    for a in actors:
        out.append("  %s plays %s" % (a["name"], a["role"]))
    out += ["end", "script", "  tempo 50ms"]
    chars = "pqrstu"[:rng.range(2, 5)]
    failing = rng.chance(1, 7)            # some plays break off in the middle (exit status 1) or tolerate a failure
    acting = [a["name"] for a in actors if a["acting"]]
    used_actors = set()
    for ch in chars:
        did = False
        for an in acting:
            if rng.chance(3, 5):
                out.append("  scene %s entails for %s: %s" % (ch, an, rng.pick(["tick", "nap", "tick; nap"] + (["tick; bad; nap", "bad?; tick"] if failing else []))))
                used_actors.add(an)
                did = True
        k = rng.below(10)
        if k < 3:
            out.append("  scene %s mood starts %s" % (ch, rng.pick(MOODS[:4])))
        elif k < 5:
            out.append("  scene %s mood ends %s" % (ch, rng.pick(MOODS)))
        elif k < 6:
            out.append("  scene %s mood starts %s" % (ch, rng.pick(MOODS[:4])))
            out.append("  scene %s mood ends %s" % (ch, rng.pick(MOODS)))
        elif not did:
            out.append("  scene %s mood ends clear" % ch)
    for an in acting:
        if an not in used_actors and rng.chance(3, 4):
            out.append("  scene %s entails for %s: tick" % (rng.pick(chars), an))
            used_actors.add(an)
    for a in actors:
        a["acting"] = a["name"] in used_actors      # what the script entails; the storyline may still leave the scene out
    nacts = rng.range(1, 3)
    acts = []
    for _ in range(nacts):
        busy = [l.split()[1] for l in out if " entails for " in l]
        cols = [rng.pick(busy) if busy and rng.chance(1, 2) else rng.pick(list(chars) + ["."]) for _ in range(rng.range(1, 3))]
        if all(c == "." for c in cols):
            cols[0] = chars[0]
        acts.append("".join(cols))
    out.append("  storyline " + " ".join(acts))
    repeat_act, expected = None, list(range(1, nacts + 1))
    if rng.chance(2, 5):
        k = rng.below(nacts)
        pat = re.escape(acts[k]).replace("\\.", "[.]")
        first = next(i for i, a in enumerate(acts) if re.search(pat, a))
        cnt = rng.pick([2, 2, 3])
        out.append("  repeat from " + pat)
        out.append("  repeat %d times" % cnt)
        repeat_act = first + 1
        for _ in range(cnt - 1):
            expected += list(range(first + 1, nacts + 1))
    out.append("end")

    # -- audience
    sig_actors = [a["name"] for a in actors if a["role"] == "r"]
    members, vars_, aud = [], [], ["audience"]
    nm = rng.range(0, 5) if rng.chance(9, 10) else 0
    for i in range(nm):
        name = "m%d" % i
        watch, lines = [], []

        def w_add(actor, sig):
            if (actor, sig) not in [(x, y) for x, y, _ in watch]:
                watch.append((actor, sig, SIGKIND.get(sig, "s") if actor else "s"))
        kind = rng.pick(["W", "W", "A", "A", "N", "M"])
        if kind in ("A", "N", "M"):
            if kind == "N":
                lines.append("%s audits only while mood == 'purple'" % name)      # never active: no verdict
            elif rng.chance(1, 3):
                sa = rng.pick(sig_actors)
                lines.append("%s audits only while [%s val] >= 0" % (name, sa))   # active once val arrives
                w_add(sa, "val")
            else:
                lines.append("%s audits throughout" % name)
            if rng.chance(1, 2):
                sa, sg = rng.pick(sig_actors), rng.pick(["val", "dl", "late"])
                v = "v%d" % len(vars_)
                lines.append("%s computes %s as [%s %s] + 1" % (name, v, sa, sg))
                w_add(sa, sg)
                vars_.append(v)
            k = rng.below(4)
            if k == 0:
                sa, sg = rng.pick(sig_actors), rng.pick(["val", "dl"])
                lines.append("%s expects always: [%s %s] >= 0" % (name, sa, sg))
                w_add(sa, sg)
            elif k == 1:
                sa = rng.pick(sig_actors)
                lines.append("%s expects always: [%s ev] != 'never'" % (name, sa))
                w_add(sa, "ev")
            elif k == 2:
                lines.append("%s expects always: t >= 0" % name)
            # k == 3: computes only (if any)
            if len(lines) == 1 and kind != "N" and k == 3:
                lines.append("%s expects always: t >= 0" % name)
        if kind in ("W", "M") and rng.chance(1, 4):
            # several event signals, a silent one declared before one that fires: each curve keeps the lane of
            # the signals that HAVE data
            firing = [a["name"] for a in actors if a["role"] == "r" and any(l.startswith("ev=") for l in a["feed"])]
            silent = [(a["name"], "ev") for a in actors if a["role"] == "r" and not any(l.startswith("ev=") for l in a["feed"])]
            silent += [(a["name"], "past") for a in actors if a["role"] == "r" and not a.get("neg")]
            if firing and silent:
                sa, sg = rng.pick(silent)
                lines.append("%s watches %s %s" % (name, sa, sg))
                w_add(sa, sg)
                fa = rng.pick(firing)
                lines.append("%s watches %s ev" % (name, fa))
                w_add(fa, "ev")
        if kind in ("W", "M"):
            for _ in range(rng.range(1, 3)):
                k = rng.below(10)
                if k < 6:
                    sa, sg = rng.pick(sig_actors), rng.pick([s for s, _, _ in SIGS])
                    lines.append("%s watches %s %s" % (name, sa, sg))
                    w_add(sa, sg)
                elif k < 7:
                    sg = rng.pick([s for s, _, _ in SIGS])
                    lines.append("%s watches every r %s" % (name, sg))
                    for sa in sig_actors:
                        w_add(sa, sg)
                elif k < 9 and vars_:
                    v = rng.pick(vars_)
                    lines.append("%s watches %s" % (name, v))
                    w_add("", v)
                else:
                    v = rng.pick(["mood", "t"])
                    lines.append("%s watches %s" % (name, v))
                    w_add("", v)
        only_helps = rng.chance(1, 4)
        if only_helps:
            lines.insert(rng.below(len(lines) + 1) if kind == "W" else len(lines), "%s only helps" % name)
        if rng.chance(1, 3):
            lines.append("%s measures things of %s" % (name, name))
        aud += ["  " + l for l in lines]
        members.append({"name": name, "only_helps": only_helps, "watch": watch, "kind": kind})
    negs = [a["name"] for a in actors if a.get("neg")]
    if negs:                                   # somebody must listen, or the old line is not even parsed
        name = "mz"
        aud.append("  %s watches %s past" % (name, negs[0]))
        members.append({"name": name, "only_helps": False, "watch": [(negs[0], "past", "e")], "kind": "W"})
    aud.append("end")
    text = "\n".join(out + (aud if members else [])) + "\n"
    return {"idx": idx, "text": text, "extra_files": files, "actors": actors, "members": members,
            "repeat_act": repeat_act, "expected_acts": expected, "nacts": nacts, "neg": neg}


def corpus():
    """hand-written plays that pin the corners down"""
    res = []
    base_roles = ("role r\n  :tick true\n  spotlight cat %sfeed.txt; sleep 100\n" % UP +
                  "".join("  signal %s %s at %s\n" % s for s in SIGS) + "end\n")
    # every kind of member at once, two moods, three acts, repeat
    res.append({"text": base_roles + "cast\n  a plays r\n  b plays r\n  s plays r\nend\nscript\n  tempo 50ms\n"
                "  scene p entails for a: tick\n  scene p mood starts red\n  scene q entails for b: tick\n  scene q mood ends clear\n"
                "  scene u mood starts blue\n  storyline p.q u.p qp\n  repeat from u\n  repeat 2 times\nend\n"
                "audience\n  al watches a ev\n  al watches a val\n  al watches b ev\n  al watches a late\n"
                "  bo watches every r val\n  bo only helps\n"
                "  ca audits throughout\n  ca computes dbl as [a val] * 2\n  ca expects always: [a val] >= 0\n"
                "  da watches dbl\n  da watches mood\n  da measures stuff\n"
                "  ed watches a dl\n"
                "  fr audits only while mood == 'purple'\n  fr expects always: t >= 0\nend\n",
                "extra_files": {"feed.txt": "ev=hello\nval=3\nev=world\nval=5\nat 2.50 late=4\n"},
                "actors": [{"name": "a", "role": "r", "acting": True}, {"name": "b", "role": "r", "acting": True}, {"name": "s", "role": "r", "acting": False}],
                "members": [{"name": "al", "only_helps": False, "watch": [("a", "ev", "e"), ("a", "val", "s"), ("b", "ev", "e"), ("a", "late", "s")]},
                            {"name": "bo", "only_helps": True, "watch": [("a", "val", "s"), ("b", "val", "s"), ("s", "val", "s")]},
                            {"name": "ca", "only_helps": False, "watch": [("a", "val", "s")]},
                            {"name": "da", "only_helps": False, "watch": [("", "dbl", "s"), ("", "mood", "s")]},
                            {"name": "ed", "only_helps": False, "watch": [("a", "dl", "s")]},
                            {"name": "fr", "only_helps": False, "watch": []}],
                "repeat_act": 2, "expected_acts": [1, 2, 3, 2, 3], "nacts": 3, "neg": False})
    # nothing at all: no audience, nobody acts
    res.append({"text": "role r\n  :tick true\nend\ncast\n  a plays r\nend\nscript\n  tempo 50ms\n  scene p mood starts red\n  storyline p\nend\n",
                "extra_files": {}, "actors": [{"name": "a", "role": "r", "acting": False}], "members": [],
                "repeat_act": None, "expected_acts": [1], "nacts": 1, "neg": False})
    # two event signals and a scalar in one box: lanes 1 and 2; an observer whose only signal is silent
    res.append({"text": base_roles + "cast\n  a plays r\n  b plays r\nend\nscript\n  tempo 50ms\n  scene p entails for b: tick\n"
                "  scene p mood starts green\n  scene q mood starts yellow\n  storyline p q\nend\n"
                "audience\n  x watches a val\n  x watches a ev\n  x watches a dl\n  x watches b ev\n  y watches a past\nend\n",
                "extra_files": {"feed.txt": "ev=one\nval=1\nev=two\n"},
                "actors": [{"name": "a", "role": "r", "acting": False}, {"name": "b", "role": "r", "acting": True}],
                "members": [{"name": "x", "only_helps": False, "watch": [("a", "val", "s"), ("a", "ev", "e"), ("a", "dl", "s"), ("b", "ev", "e")]},
                            {"name": "y", "only_helps": False, "watch": [("a", "past", "e")]}],
                "repeat_act": None, "expected_acts": [1, 2], "nacts": 2, "neg": False})
    for i, p in enumerate(res):
        p["idx"] = -1 - i
    return res


# ---------------------------------------------------------------------------------------------
# reading the scripts back
# ---------------------------------------------------------------------------------------------
def split_top(s):
    """split at commas that are outside quotes and parentheses"""
    parts, cur, depth, q = [], "", 0, None
    for ch in s:
        if q:
            cur += ch
            if ch == q:
                q = None
            continue
        if ch in "'\"":
            q = ch
            cur += ch
        elif ch in "([":
            depth += 1
            cur += ch
        elif ch in ")]":
            depth -= 1
            cur += ch
        elif ch == "," and depth == 0:
            parts.append(cur.strip())
            cur = ""
        else:
            cur += ch
    if cur.strip():
        parts.append(cur.strip())
    return parts


def gp_string(tok):
    tok = tok.strip()
    if tok.startswith('"'):
        try:
            return json.loads(tok)
        except ValueError:
            return tok.strip('"')
    return tok.strip("'")


def parse_gp(text):
    """-> dict(xmin, xmax, rows, acts, lanes, lane_top, bands, boxes, problems)"""
    res = {"xmin": None, "xmax": None, "rows": None, "acts": [], "lanes": [], "lane_top": None, "bands": [],
           "boxes": [], "problems": []}
    prob = res["problems"]
    lines, cur = [], ""
    for l in text.split("\n"):
        if l.endswith("\\"):
            cur += l[:-1] + " "
        else:
            lines.append(cur + l)
            cur = ""
    title, ytop, nplots, objs, arrows_unset, multi_unset = None, None, 0, [], False, False
    for l in lines:
        l = l.strip()
        m = re.match(r"^set multiplot layout (\d+),1$", l)
        if m:
            res["rows"] = int(m.group(1))
            continue
        m = re.match(r"^set xrange \[(-?[\d.]+):(-?[\d.]+)\]$", l)
        if m:
            res["xmin"], res["xmax"] = Fraction(m.group(1)), Fraction(m.group(2))
            continue
        m = re.match(r"^set arrow from (-?[\d.]+), graph 0 to (-?[\d.]+), graph 1 back nohead", l)
        if m:
            if m.group(1) != m.group(2):
                prob.append("slanted act line: " + l)
            if nplots:
                prob.append("act line set after the first box")
            res["acts"].append(Fraction(m.group(1)))
            continue
        m = re.match(r'^set object (\d+) rectangle from (first -?[\d.]+|graph 0), graph 0 to (first -?[\d.]+|graph 1), graph 1 behind fs solid [\d.]+ fc "(.*)"$', l)
        if m:
            if int(m.group(1)) != len(res["bands"]) + 1:
                prob.append("object numbering: " + l)
            if nplots != 1:
                prob.append("mood bands must be set after the action box and before the audience boxes")
            lo = "L" if m.group(2) == "graph 0" else Fraction(m.group(2).split()[1])
            hi = "R" if m.group(3) == "graph 1" else Fraction(m.group(3).split()[1])
            res["bands"].append((lo, hi, m.group(4)))
            continue
        m = re.match(r"^unset object (\d+)$", l)
        if m:
            objs.append(int(m.group(1)))
            continue
        if l == "unset arrow":
            arrows_unset = True
            continue
        if l == "unset multiplot":
            multi_unset = True
            continue
        m = re.match(r"^set title (.*)$", l)
        if m:
            title = gp_string(m.group(1))
            continue
        m = re.match(r"^set yrange \[(.*):(.*)\]$", l)
        if m:
            ytop = None if m.group(2) == "*" else int(m.group(2))
            continue
        if l.startswith("plot "):
            body = l[5:].strip()
            nplots += 1
            if nplots == 1:
                if title != "actions":
                    prob.append("the first box is not the action box: %r" % title)
                res["lane_top"] = ytop
                if body == ".5 t 'nothingness!'":
                    continue
                cs = split_top(body)
                if len(cs) % 3:
                    prob.append("action box: %d curves" % len(cs))
                for i in range(0, len(cs) - 2, 3):
                    ms = [re.match(r"^'\.\./csv/(.*)\.csv' using 1:\((\d+)\):1:\(\$1\+\$2\):\((\d+)-0\.25\):\((\d+)\+0\.25\):.* with boxxyerror notitle", cs[i]),
                          re.match(r"^'\.\./csv/(.*)\.csv' using 1:\((\d+)\+0\.25\):3 with labels t '(.*) events \(at y=(\d+)\)'$", cs[i + 1]),
                          re.match(r"^'\.\./csv/(.*)\.csv' using \(\$1\+\$2\):\((\d+)-0\.25\):5 with labels hypertext point .* notitle$", cs[i + 2])]
                    if not all(ms):
                        prob.append("action curve not understood: " + " | ".join(cs[i:i + 3]))
                        continue
                    names = {ms[0].group(1), ms[1].group(1), ms[2].group(1), ms[1].group(3)}
                    nums = {ms[0].group(2), ms[0].group(3), ms[0].group(4), ms[1].group(2), ms[1].group(4), ms[2].group(2)}
                    if len(names) != 1 or len(nums) != 1:
                        prob.append("action lane inconsistent: " + " | ".join(cs[i:i + 3]))
                    res["lanes"].append((ms[0].group(1), int(ms[0].group(2))))
                continue
            first = (title or "").split("\n")[0]
            m = re.match(r"^observer (.*)$", first)
            member = m.group(1) if m else "?" + first
            curves = []
            for c in split_top(body):
                m = re.match(r"^'\.\./csv/(.*)\.csv' (.*) t (\"(?:[^\"\\]|\\.)*\")$", c)
                if not m:
                    prob.append("curve not understood: " + c)
                    curves.append(("?", c))
                    continue
                fn, style, ttl = m.group(1), m.group(2).strip(), gp_string(m.group(3))
                if fn == "audit-" + member:
                    if re.match(r"^using 1:\(\.87\):\(faces\[\$2\+1\]\) with labels", style) and ttl == "":
                        curves.append(("f",))
                    elif re.match(r"^using 1:\(\.8\):3 with labels hypertext point", style) and ttl == "":
                        curves.append(("v",))
                    else:
                        prob.append("audit curve not understood: " + c)
                        curves.append(("?", c))
                    continue
                parts = fn.split(".")
                if len(parts) != 3 or parts[0] != member:
                    prob.append("box %s draws file %s" % (member, fn))
                    curves.append(("?", c))
                    continue
                actor, sig = parts[1], parts[2]
                m2 = re.match(r"^using 1:\((\d+)\+\$3\):2 with labels hypertext point pt 6 ps \.5$", style)
                if style == "using 1:2 with linespoints":
                    if ttl != "%s %s" % (actor, sig):
                        prob.append("legend %r on file %s" % (ttl, fn))
                    curves.append(("l", actor, sig))
                elif m2:
                    if ttl != "%s %s (around y=%s)" % (actor, sig, m2.group(1)):
                        prob.append("legend %r on file %s lane %s" % (ttl, fn, m2.group(1)))
                    curves.append(("e", actor, sig, int(m2.group(1))))
                else:
                    prob.append("style not understood: " + c)
                    curves.append(("?", c))
            res["boxes"].append({"member": member, "ytop": ytop, "curves": curves})
    if sorted(objs) != list(range(1, len(res["bands"]) + 1)):
        prob.append("objects set %d, unset %s" % (len(res["bands"]), objs))
    if not arrows_unset or not multi_unset:
        prob.append("script does not end with unset arrow / unset multiplot")
    if res["xmin"] is None or res["rows"] is None:
        prob.append("no xrange / layout")
    return res


def parse_runme(text):
    loads = re.findall(r"^load '(.*)'$", text, re.M)
    rows = set()
    m = re.search(r"^set term pdf color size 7,(\d+) ", text, re.M)
    if m:
        rows.add(Fraction(int(m.group(1)), 2))
    m = re.search(r"^set term svg mouse standalone size 600,(\d+) ", text, re.M)
    if m:
        rows.add(Fraction(int(m.group(1)), 200))
    outs = re.findall(r"^set output '(.*)'$", text, re.M)
    prob = []
    if len(rows) != 1 or list(rows)[0].denominator != 1:
        prob.append("page sizes of runme.gp disagree: %s" % sorted(rows))
    want_outs = [l.replace(".gp", e) for e in (".pdf", ".svg", ".txt") for l in loads[:len(loads) // 3]]
    if outs != want_outs:
        prob.append("runme.gp outputs %s for loads %s" % (outs, loads))
    return {"loads": loads, "rows": int(list(rows)[0]) if len(rows) == 1 and list(rows)[0].denominator == 1 else -1, "problems": prob}


# ---------------------------------------------------------------------------------------------
# tokens
# ---------------------------------------------------------------------------------------------
def rat(q):
    q = Fraction(q)
    return str(q.numerator) if q.denominator == 1 else "%d/%d" % (q.numerator, q.denominator)


def unrat(t):
    return Fraction(t)


def sub_tokens(s):
    def edge(e):
        return e if e in ("L", "R") else rat(e)

    def curve(c):
        if c[0] == "e":
            return "e~%s~%s~%d" % (hexs(c[1]), hexs(c[2]), c[3])
        if c[0] == "l":
            return "l~%s~%s" % (hexs(c[1]), hexs(c[2]))
        return c[0]
    boxes = ";".join("%s:%s:%s" % (hexs(b["member"]), "-" if b["ytop"] is None else b["ytop"],
                                    "|".join(curve(c) for c in b["curves"]) or "-") for b in s["boxes"]) or "-"
    return [rat(s["xmin"]), rat(s["xmax"]), str(s["rows"]), ",".join(rat(a) for a in s["acts"]) or "-",
            ",".join("%s:%d" % (hexs(n), k) for n, k in s["lanes"]) or "-", str(s["lane_top"]),
            ",".join("%s:%s:%s" % (edge(a), edge(b), hexs(m)) for a, b, m in s["bands"]) or "-", boxes]


def plot_tokens(real):
    t = sub_tokens(real["main"])
    t += (["Z"] + sub_tokens(real["zoom"])) if real["zoom"] else ["-"]
    t += [",".join(hexs(l) for l in real["loads"]) or "-", str(real["page_rows"])]
    return t


def parse_sub_tokens(t):
    def lst(x, sep=","):
        return [] if x == "-" else x.split(sep)

    def edge(e):
        return e if e in ("L", "R") else unrat(e)

    def curve(c):
        p = c.split("~")
        if p[0] == "e":
            return ("e", unhex(p[1]), unhex(p[2]), int(p[3]))
        if p[0] == "l":
            return ("l", unhex(p[1]), unhex(p[2]))
        return (p[0],)
    boxes = []
    for b in lst(t[7], ";"):
        m, y, cs = b.split(":")
        boxes.append({"member": unhex(m), "ytop": None if y == "-" else int(y), "curves": [curve(c) for c in lst(cs, "|")]})
    return {"xmin": unrat(t[0]), "xmax": unrat(t[1]), "rows": int(t[2]), "acts": [unrat(a) for a in lst(t[3])],
            "lanes": [(unhex(x.split(":")[0]), int(x.split(":")[1])) for x in lst(t[4])], "lane_top": int(t[5]),
            "bands": [(edge(x.split(":")[0]), edge(x.split(":")[1]), unhex(x.split(":")[2])) for x in lst(t[6])],
            "boxes": boxes}


def parse_plot_tokens(line):
    t = line.split(" ")
    main = parse_sub_tokens(t[:8])
    rest = t[8:]
    zoom = None
    if rest[0] == "Z":
        zoom = parse_sub_tokens(rest[1:9])
        rest = rest[9:]
    else:
        rest = rest[1:]
    return {"main": main, "zoom": zoom, "loads": [unhex(x) for x in ([] if rest[0] == "-" else rest[0].split(","))],
            "page_rows": int(rest[1])}


def close(a, b):
    return abs(Fraction(a) - Fraction(b)) <= TOL


def diff_sub(nm, want, got):
    """first difference, at the granularity of the property"""
    if not (close(want["xmin"], got["xmin"]) and close(want["xmax"], got["xmax"])):
        return nm + ": x range"
    if want["lanes"] != got["lanes"] or want["lane_top"] != got["lane_top"]:
        return nm + ": action lanes"
    if [b["member"] for b in want["boxes"]] != [b["member"] for b in got["boxes"]] or want["rows"] != got["rows"]:
        return nm + ": boxes"
    if want["boxes"] != got["boxes"]:
        return nm + ": curves"

    def edge_eq(a, b):
        return a == b if (a in ("L", "R") or b in ("L", "R")) else close(a, b)
    if len(want["bands"]) != len(got["bands"]) or not all(edge_eq(a[0], b[0]) and edge_eq(a[1], b[1]) and a[2] == b[2] for a, b in zip(want["bands"], got["bands"])):
        return nm + ": mood bands"
    if len(want["acts"]) != len(got["acts"]) or not all(close(a, b) for a, b in zip(want["acts"], got["acts"])):
        return nm + ": act lines"
    return None


def diff_plot(want, got):
    d = diff_sub("plot.gp", want["main"], got["main"])
    if d:
        return d
    if (want["zoom"] is None) != (got["zoom"] is None):
        return "lastplot.gp: zoomed plot %s" % ("missing" if got["zoom"] is None else "without a repeated section")
    if want["zoom"]:
        d = diff_sub("lastplot.gp", want["zoom"], got["zoom"])
        if d:
            return d
    if want["loads"] != got["loads"] or want["page_rows"] != got["page_rows"]:
        return "runme.gp"
    return None


def jsonable(x):
    if isinstance(x, Fraction):
        return float(x)
    if isinstance(x, dict):
        return {k: jsonable(v) for k, v in x.items()}
    if isinstance(x, (list, tuple)):
        return [jsonable(v) for v in x]
    return x


# ---------------------------------------------------------------------------------------------
# facts, derived from what the play left behind
# ---------------------------------------------------------------------------------------------
def csv_instants(txt):
    res = []
    for l in txt.splitlines():
        m = re.match(r"^(-?[\d.]+) ", l)
        if m:
            res.append(Fraction(m.group(1)))
    return res


def audit_log_moods(rundir):
    """-> (changes [(instant, mood)], elapsed) as the audition logged them"""
    p = os.path.join(rundir, "logs", "shakespeare-audit.log")
    try:
        lines = open(p, errors="replace").read().split("\n")
    except OSError:
        return None, None
    changes, elapsed, pending, at_end = [], None, None, False
    for l in lines:
        m = re.search(r'\] \d+ the mood "(.*)" is starting$', l)
        if m:
            pending = m.group(1)
            continue
        if re.search(r"\] \d+ at end$", l):
            at_end = True
            continue
        m = re.search(r"\] \d+ t := (\S+)$", l)
        if m:
            if pending is not None:
                changes.append((Fraction(m.group(1)), pending))
                pending = None
            elif at_end and elapsed is None:
                elapsed = Fraction(m.group(1))
    return changes, elapsed


def collector_log_moods(rundir):
    """instants (two decimals) of all mood events the collector logged"""
    try:
        txt = open(os.path.join(rundir, "logs", "shakespeare-collector.log"), errors="replace").read()
    except OSError:
        return []
    return [Fraction(m) for m in re.findall(r"\] \d+ (-?[\d.]+) mood set: ", txt)]


def narration(stdout):
    """-> list of ('act', n) | ('do', actor, action) | ('mood', m) in order"""
    res = []
    for l in (stdout or "").split("\n"):
        m = re.match(r"^act (\d+) starts$", l)
        if m:
            res.append(("act", int(m.group(1))))
            continue
        m = re.match(r"^    (\w+): (\w+)[!?]$", l)
        if m:
            res.append(("do", m.group(1), m.group(2)))
            continue
        m = re.match(r"^    \(mood (\w+)\)$", l)
        if m:
            res.append(("mood", m.group(1)))
    return res


def act_bounds(narr, csv):
    """for each narrated act start: (lower, upper) bound of its instant from the action rows"""
    rows = {}
    for f, txt in csv.items():
        m = re.match(r"^(\w+)\.csv$", f)
        if m:
            rows[m.group(1)] = [(Fraction(l.split(" ")[0]), Fraction(l.split(" ")[1])) for l in txt.splitlines() if l.strip()]
    seen, timeline = {}, []
    for ev in narr:
        if ev[0] == "act":
            timeline.append(("act",))
        elif ev[0] == "do":
            k = seen.get(ev[1], 0)
            seen[ev[1]] = k + 1
            r = rows.get(ev[1], [])
            if k < len(r):
                timeline.append(("do", r[k][0], r[k][0] + r[k][1]))
    res = []
    for i, ev in enumerate(timeline):
        if ev[0] != "act":
            continue
        lo = max([e[2] for e in timeline[:i] if e[0] == "do"] + [Fraction(0)])
        later = [e[1] for e in timeline[i + 1:] if e[0] == "do"]
        res.append((lo, min(later) if later else None))
    return res


def derive_facts(desc, r):
    """-> (facts dict, notes) from CSV files, result.js, the audition's log and the narration"""
    csv = r["csv"]
    res = r["result"]
    cast = [(a["name"], (a["name"] + ".csv") in csv and bool(csv[a["name"] + ".csv"].strip())) for a in desc["actors"]]
    aud = []
    for m in desc["members"]:
        ws = []
        for actor, sig, kind in m["watch"]:
            f = "%s.%s.%s.csv" % (m["name"], actor, sig)
            if actor == "" and f in csv and any(len(l.split()) >= 2 and l.split()[1].startswith('"') for l in csv[f].splitlines()):
                # a variable has no declared type: one that received non-numeric samples (mood, a string or an
                # array) is an event curve — labelled points on their own lane —, a numeric one a line
                kind = "e"
            ws.append((actor, sig, kind, f in csv and bool(csv[f].strip())))
        audited = ("audit-%s.csv" % m["name"]) in csv and bool(csv["audit-%s.csv" % m["name"]].strip())
        aud.append({"name": m["name"], "only_helps": m["only_helps"], "watch": ws, "audited": audited,
                    "has_data": audited or any(w[3] for w in ws)})
    changes, elapsed = audit_log_moods(r["rundir"])
    narr = narration(r["stdout"])
    acts = [ev[1] for ev in narr if ev[0] == "act"]
    return {"min": Fraction(res["MinTime"]), "max": Fraction(res["MaxTime"]),
            "rep": Fraction(res["Repeat"]["StartTime"]) if res.get("Repeat") else None,
            "cast": cast, "aud": aud, "changes": changes, "elapsed": elapsed, "act_nums": acts, "narr": narr}


def facts_tokens(f, act_ts):
    cast = ",".join("%s:%d" % (hexs(n), d) for n, d in f["cast"]) or "-"
    aud = ";".join("%s:%d:%d:%d:%s" % (hexs(m["name"]), m["only_helps"], m["has_data"], m["audited"],
                                        "|".join("%s~%s~%s~%d" % (hexs(a), hexs(s), k, d) for a, s, k, d in m["watch"]) or "-")
                   for m in f["aud"]) or "-"
    ch = ",".join("%s:%s" % (rat(t), hexs(m)) for t, m in f["changes"]) or "-"
    acts = ",".join("%s:%d" % (rat(t), n) for t, n in zip(act_ts, f["act_nums"])) or "-"
    return [rat(f["min"]), rat(f["max"]), "-" if f["rep"] is None else rat(f["rep"]), cast, aud, ch, rat(f["elapsed"]), acts]


def read_real(rundir):
    pd = os.path.join(rundir, "plots")

    def rd(n):
        try:
            return open(os.path.join(pd, n), encoding="utf-8", errors="replace").read()
        except OSError:
            return None
    main, last, runme = rd("plot.gp"), rd("lastplot.gp"), rd("runme.gp")
    if main is None or runme is None:
        return None
    rm = parse_runme(runme)
    real = {"main": parse_gp(main), "zoom": parse_gp(last) if last is not None else None, "loads": rm["loads"],
            "page_rows": rm["rows"]}
    real["problems"] = real["main"]["problems"] + (real["zoom"]["problems"] if real["zoom"] else []) + rm["problems"]
    return real


def check_play(desc, r, model):
    """-> dict(k: [...], o: [...], notes, counts) for one finished play"""
    out = {"k": [], "o": [], "counts": [], "sample": None}
    if not r["rundir"] or not r["result"] or "_malformed" in r["result"]:
        out["k"].append({"what": "the play left no result", "rc": r["rc"], "stderr": (r["stderr"] or "")[-600:], "stdout": (r["stdout"] or "")[-600:]})
        return out
    real = read_real(r["rundir"])
    if real is None:
        out["o"].append({"part": "scripts", "what": "plots/plot.gp or plots/runme.gp was not written"})
        return out
    f = derive_facts(desc, r)
    if f["changes"] is None or f["elapsed"] is None:
        out["k"].append({"what": "the audition's log does not show the mood changes / the end of the audition"})
        return out
    if real["problems"]:
        out["o"].append({"part": "scripts", "what": "script not understood or inconsistent: " + "; ".join(real["problems"][:3])})
        return out
    # -- act instants: from the arrows of plot.gp, checked against independent bounds
    arrows = real["main"]["acts"]
    nacts = len(f["act_nums"])
    if f["act_nums"] != desc["expected_acts"] and r["rc"] == 0:
        out["k"].append({"what": "narrated acts %s, the script asks for %s" % (f["act_nums"], desc["expected_acts"])})
    if len(arrows) != max(nacts - 1, 0):
        out["o"].append({"part": "act lines", "what": "%d act starts narrated (%s), %d act lines in plot.gp" % (nacts, f["act_nums"], len(arrows))})
        return out
    bounds = act_bounds(f["narr"], r["csv"])
    slack = Fraction(2, 10000)
    for i, ts in enumerate(arrows):
        lo, hi = bounds[i + 1]
        if ts < lo - slack or (hi is not None and ts > hi + slack) or (i and ts < arrows[i - 1]):
            out["o"].append({"part": "act lines", "what": "act line %d at %.6f, but the act started between %.4f and %s (action rows)" % (
                i + 1, ts, lo, "%.4f" % hi if hi is not None else "the end")})
    act_ts = [Fraction(0)] + arrows
    # -- K-C19p / O-C19p: the start of the repeated section, by the model of assemble and by the specification
    # (the instant of the first act start is not recorded anywhere: the sentinel -1 stands for it)
    if desc["repeat_act"]:
        sent = [Fraction(-1)] + arrows
        acts_tok = ",".join("%s:%d" % (rat(t), n) for t, n in zip(sent, f["act_nums"])) or "-"
        for op, sink, tag in (("repeat", out["k"], "K-C19p: model"), ("repeat-spec", out["o"], "specification")):
            ans = model.ask("C19 %s %d %s" % (op, desc["repeat_act"], acts_tok))
            msg = None
            if ans == "none":
                if f["rep"] is not None:
                    msg = "%s: no repeated section, result.js: Repeat.StartTime %s" % (tag, float(f["rep"]))
            elif ans is None or ans == "bad-op":
                out["k"].append({"what": "C19 %s answered %r" % (op, ans)})
            elif f["rep"] is None:
                msg = "%s: repeated section from %s, result.js has none" % (tag, ans)
            elif Fraction(ans) == -1:
                if not (0 <= f["rep"] <= (arrows[0] if arrows else f["max"])):
                    msg = "%s: the repeated section begins with the first act, Repeat.StartTime is %s" % (tag, float(f["rep"]))
            elif not close(Fraction(ans), f["rep"]):
                msg = "%s: the zoom begins at %s (next-to-last start of act %d), Repeat.StartTime is %s" % (
                    tag, float(Fraction(ans)), desc["repeat_act"], float(f["rep"]))
            if msg:
                sink.append({"what": msg, "part": "zoom start", "acts": f["act_nums"], "act_lines": [float(a) for a in arrows]})
    elif f["rep"] is not None:
        out["o"].append({"part": "zoom", "what": "a play without `repeat from` has a repeated section"})
    # -- K-C19r: the time range of the result.  Instants: every CSV row, every mood change.  A change to the mood
    # that already reigns is an event for the collector too, but shows only in the collector's log (two decimals).
    inst = [t for txt in r["csv"].values() for t in csv_instants(txt)]
    eff = [t for t, _ in f["changes"][1:]]
    narrated_moods = sum(1 for e in f["narr"] if e[0] == "mood")
    tol = Fraction(1, 10000)
    if narrated_moods == len(eff):
        inst += eff
    else:
        inst += collector_log_moods(r["rundir"])
        tol = Fraction(51, 10000)
        out["counts"].append("range:with-unchanged-mood-events")
    # since c9d1f38 `assemble` also widens the range by what the audition holds: the act starts (the lines of plot.gp
    # show them; the first one lies between 0 and the first action) and the end of a mood that still reigns when the
    # audition ends
    inst += list(arrows)
    if f["changes"] and f["changes"][-1][1] != "clear" and f["elapsed"] is not None:
        inst.append(f["elapsed"])
        tol = max(tol, Fraction(2, 10000))
    ans = model.ask("C19 range " + (",".join(rat(t) for t in inst) or "-"))
    try:
        lo, hi = [Fraction(x) for x in ans.split(" ")]
        if abs(lo - f["min"]) > tol or abs(hi - f["max"]) > tol:
            out["k"].append({"what": "K-C19r: model range [%s, %s], result.js [%s, %s]" % (float(lo), float(hi), float(f["min"]), float(f["max"]))})
    except (ValueError, AttributeError):
        out["k"].append({"what": "K-C19r: model answered %r" % ans})
    if not (f["min"] <= 0 and f["min"] + 1 <= f["max"]):
        out["o"].append({"part": "x range", "what": "result range [%s, %s] is not at least one second wide from zero" % (float(f["min"]), float(f["max"]))})
    # -- K-C19 / O-C19: the plot
    ft = facts_tokens(f, act_ts)
    mline = model.ask("C19 plot " + " ".join(ft))
    sline = model.ask("C19 spec " + " ".join(ft))
    oline = model.ask("C19 oracle " + " ".join(ft + plot_tokens(real)))
    if not mline or mline == "bad-op" or not sline or sline == "bad-op":
        out["k"].append({"what": "model does not accept the facts", "tokens": " ".join(ft)[:600]})
        return out
    mplot, splot = parse_plot_tokens(mline), parse_plot_tokens(sline)
    dk = diff_plot(mplot, real)
    if dk:
        out["k"].append({"what": "K-C19: model plot and real script differ at " + dk, "part": dk,
                         "model": jsonable(mplot), "real": jsonable({k: real[k] for k in ("main", "zoom", "loads", "page_rows")})})
    do = diff_plot(splot, real)
    if do or oline != "ok":
        part = (do or oline).split(": ")[-1] if do else oline[5:].split(": ")[1].split(",")[0]
        out["o"].append({"part": part, "what": "the script is not the plot the property describes: %s (Lean oracle: %s)" % (do, oline),
                         "specification": jsonable(splot), "real": jsonable({k: real[k] for k in ("main", "zoom", "loads", "page_rows")})})
    elif (do is None) != (oline == "ok"):
        out["k"].append({"what": "Lean oracle says %r, the comparison in Python %r" % (oline, do)})
    # cross-check of the log-derived mood instants against a watched `mood` variable (4 decimals)
    for fn, txt in r["csv"].items():
        if fn.endswith("..mood.csv"):
            rows = [(Fraction(l.split(" ")[0]), l.split(" ")[1].strip('"')) for l in txt.splitlines() if l.strip()]
            if [m for _, m in rows] != [m for _, m in f["changes"]] or any(abs(a - b) > Fraction(1, 10000) for (a, _), (b, _) in zip(rows, f["changes"])):
                out["k"].append({"what": "mood changes of the audition's log and of %s differ" % fn, "log": jsonable(f["changes"]), "csv": jsonable(rows)})
            break
    # -- distribution
    c = out["counts"]
    for m in f["aud"]:
        c.append("member:" + ("only-helps" if m["only_helps"] else "plain") + ("+data" if m["has_data"] else "+nodata"))
        c.append("auditor-with-verdicts" if m["audited"] else "member-without-verdicts")
        for a, s, k, d in m["watch"]:
            c.append("watched:%s:%s" % ("variable" if a == "" else ("event" if k == "e" else "scalar"), "data" if d else "silent"))
    for n, d in f["cast"]:
        c.append("actor:" + ("acted" if d else "silent"))
    if not any(d for _, d in f["cast"]):
        c.append("play:nobody-acted")
    c.append("bands:%d" % min(len(real["main"]["bands"]), 4))
    c.append("act-lines:%d" % min(len(arrows), 5))
    c.append("zoom:" + ("yes" if real["zoom"] else "no"))
    c.append("range:" + ("negative-min" if f["min"] < 0 else "zero-min") + ("+max>1" if f["max"] > 1 else "+max=1"))
    if real["zoom"] and len(real["zoom"]["bands"]) < len(real["main"]["bands"]):
        c.append("zoom:band-skipped")
    if real["zoom"] and len(real["zoom"]["acts"]) < len(real["main"]["acts"]):
        c.append("zoom:act-line-skipped")
    if any(b[0] == "L" or b[1] == "R" for s in (real["main"], real["zoom"]) if s for b in s["bands"]):
        c.append("bands:cut-at-border")
    c.append("play:rc=%s" % r["rc"])
    out["sample"] = {"facts": {"MinTime": float(f["min"]), "MaxTime": float(f["max"]), "Repeat.StartTime": None if f["rep"] is None else float(f["rep"]),
                               "actors_with_rows": [n for n, d in f["cast"] if d], "acts": f["act_nums"],
                               "mood_changes": [(float(t), m) for t, m in f["changes"]]},
                     "script": {"xrange": [float(real["main"]["xmin"]), float(real["main"]["xmax"])], "lanes": real["main"]["lanes"],
                                "boxes": [(b["member"], ["~".join(str(x) for x in cu) for cu in b["curves"]]) for b in real["main"]["boxes"]],
                                "bands": len(real["main"]["bands"]), "act_lines": len(arrows), "zoom": bool(real["zoom"])}}
    return out


def run(tier, seed):
    rep = Report(PROP, tier, seed, "proof")
    rep.assumptions = [
        "partial: gnuplot and the rendering are out of scope; the check ends at the text of plots/*.gp",
        "times are exact rationals in the model, float64 in the code; scripts print six decimals, compared within 1e-6",
        "act instants are recorded only in the script: read from the arrows of plot.gp, checked against bounds from the action rows, the narration and Repeat.StartTime",
        "mood instants and the end of the audition are read from logs/shakespeare-audit.log (cross-checked with a watched `mood` variable when there is one)",
        "math.IsInf branches of subPlots are not modelled: recorded mood periods start at a finite instant (audit.go)"]
    try:
        build_go()
        build_driver()
    except BuildError as e:
        rep.obligation("build", "K", False, e.output)
        rep.violation("build failed: " + e.what, {"output": e.output[-4000:], "broken": "K-C19 (build)"}, nofail=True)
        return rep.finish("./check C19", "n/a")
    model = Model()
    ok, info = standard_proof_step(rep, PROP, thorough=(tier == "thorough"))
    rng = SplitMix(seed)
    descs = corpus()
    n = 18 if tier == "quick" else 300
    descs += [gen_play(rng.fork(), i) for i in range(n)]
    plays = [e2e.Play(d["text"], extra_files=d["extra_files"], keep=True, timeout=40) for d in descs]
    kdis, ofail = [], []
    CH = 48
    for i in range(0, len(plays), CH):
        results = e2e.run_many(plays[i:i + CH], workers=8)
        for d, p, r in zip(descs[i:i + CH], plays[i:i + CH], results):
            try:
                res = check_play(d, r, model)
            finally:
                p.cleanup()
            rep.case(("play", d["idx"], d["text"]))
            rep.count("plays")
            for c in res["counts"]:
                rep.count(c)
            if res["sample"]:
                rep.sample(res["sample"], cap=4)
            dd = {"actors": d["actors"], "members": d["members"], "repeat_act": d["repeat_act"], "expected_acts": d["expected_acts"]}
            for k in res["k"]:
                k["config"] = d["text"]
                k["extra_files"] = d["extra_files"]
                k["desc"] = dd
                kdis.append(k)
            for o in res["o"]:
                o["config"] = d["text"]
                o["extra_files"] = d["extra_files"]
                o["desc"] = dd
                o["replay"] = "run the configuration with `shakespeare -o out play.cfg` next to the extra files; read out/<run>/plots/*.gp"
                ofail.append(o)
    rep.obligation("K-C19: model of plot.go vs plots/plot.gp, lastplot.gp, runme.gp of %d plays; K-C19r time range, K-C19p repeated section vs result.js" % len(plays),
                   "K", not kdis, json.dumps(jsonable(kdis[:2]))[:1800])
    rep.obligation("O-C19: the specification's plot (Lean oracle) vs the scripts of %d plays; act lines within the bounds of the action rows" % len(plays),
                   "O", not ofail, json.dumps(jsonable(ofail[:2]))[:1800])
    if ofail:
        seen = set()
        for o in ofail:
            if o["part"] in seen:
                continue
            seen.add(o["part"])
            rep.violation(o["what"][:400], jsonable(o), tags={"part": o["part"]})
    else:
        if not ok:
            rep.violation("proof obligations of C19 no longer check", {"broken_theorems": info["failed"], "lean_output": info["output"][-3000:]}, nofail=True)
        elif kdis:
            rep.violation("correspondence K-C19 disagrees", {"broken": "K-C19", "disagreements": jsonable(kdis[:5])}, nofail=True)
    model.close()
    return rep.finish("cd lean && lake build ShkModel.Props.C19 && #print axioms",
                      "generated plays (distinct configuration texts) run with the real binary: observers with and without data, `only helps`, event / scalar / delta signals with now-, delta- and RFC 3339 time stamps (MaxTime > 1, MinTime < 0), watched computed variables and mood / t, auditors with and without verdicts, silent actors, plays in which nobody acts, 0-4 mood periods, 1-3 acts, with and without `repeat from`, plays that break off on a failing action; plus three hand-written corner plays",
                      explanation="claim: partial — the theorems are about the abstract plot (which file is drawn in which box in which style, rectangles, arrows, x range, zoomed copy); gnuplot and what it renders are out of scope")


def replay(path):
    """re-run the play of a replay file with the current binary and check it again"""
    rp = json.load(open(path))["replay"]
    items = [it for it in (rp.get("disagreements") or [rp]) if "config" in it and "desc" in it]
    if not items:
        print("nothing to replay in " + path)
        return 2
    build_go()
    build_driver()
    model = Model()
    bad = 0
    for it in items:
        d = dict(it["desc"], text=it["config"], extra_files=it.get("extra_files") or {}, idx=0)
        for m in d["members"]:
            m["watch"] = [tuple(w) for w in m["watch"]]
        p = e2e.Play(d["text"], extra_files=d["extra_files"], keep=True, timeout=40)
        r = p.run()
        try:
            res = check_play(d, r, model)
        finally:
            p.cleanup()
        print("recorded: " + str(it.get("what"))[:300])
        for x in res["k"]:
            print("now K: " + x["what"][:300])
        for x in res["o"]:
            print("now O: " + x["what"][:300])
        if not res["k"] and not res["o"]:
            print("now: the scripts agree with model and specification")
        bad += bool(res["k"] or res["o"])
    model.close()
    return 1 if bad else 0
