"""C18 — microsecond conversions round to nearest; Timers honour Reset/Stop."""
import json
from .common import *

PROP = "C18"
NS_EDGES = [0, 1, 499, 500, 501, 999, 1000, 1499, 1500, 499999999, 500000000, 999998499, 999998500,
            999999000, 999999499, 999999500, 999999501, 999999998, 999999999]
SECS = [0, 1, -1, 2, -2, 59, 1600000000, -1600000000, 946684800, 3124224000, 253402300799, -62135596800]


def gen_timer_script(rng, n):
    """durations 8..20 ms; waits are either none or long (>= 5x the longest duration), so the
    real run is unambiguous; the model sees the same script with ms as ticks."""
    ops = []
    for _ in range(n):
        k = rng.below(10)
        if k < 3:
            ops.append(("reset", rng.range(8, 20)))
        elif k < 6:
            ops.append(("sleep", 100))
        elif k < 9:
            ops.append(("recv", 0))
        else:
            ops.append(("stop", 0))
    return ops


def timer_tokens(ops):
    m = {"reset": "r%d", "sleep": "t%d", "recv": "v", "stop": "s"}
    return ",".join((m[k] % ms) if "%" in m[k] else m[k] for k, ms in ops)


def run(tier, seed):
    rep = Report(PROP, tier, seed, "proof")
    rep.assumptions = [
        "Go's time.Time.Round / Unix / Nanosecond and the runtime timer are modelled by hand (roundUs, fire); tied by K-C18a/b",
        "timer channels are buffered (module language version below 1.23, read from /repo/go.mod on every run)",
        "floating point does not occur"]
    try:
        build_go()
        build_driver()
    except BuildError as e:
        rep.obligation("build", "K", False, e.output)
        rep.violation("build failed: " + e.what, {"output": e.output[-4000:], "broken": "K-C18 (build)"}, nofail=True)
        return rep.finish("./check C18", "n/a")
    impl, model = Impl(), Model()
    ok, info = standard_proof_step(rep, PROP, thorough=(tier == "thorough"))
    rng = SplitMix(seed)

    # ---- K-C18a / O: instants -------------------------------------------------
    inst = [(s, n) for s in SECS for n in NS_EDGES]
    nrand = 3000 if tier == "quick" else 100000
    for _ in range(nrand):
        s = rng.pick([rng.range(-10, 10), rng.range(-2000000000, 4000000000)])
        n = rng.pick([rng.below(1000000000), 999999000 + rng.below(1000), rng.below(2000)])
        inst.append((s, n))
    kdis, ofail = [], []
    for i in range(0, len(inst), 5000):
        chunk = inst[i:i + 5000]
        got = impl.call("micros", Instants=[[s, n] for s, n in chunk])["res"]
        mres = model.ask_many(["C18 micros %d %d" % p for p in chunk])
        ores = model.ask_many(["C18 oracle-micros %d %d %d" % (p[0], p[1], g) for p, g in zip(chunk, got)])
        for p, g, m, o in zip(chunk, got, mres, ores):
            rep.case(("i",) + p)
            rep.count("carry" if p[1] >= 999999500 else ("half-up" if p[1] % 1000 >= 500 else "down"))
            rep.count("negative-sec" if p[0] < 0 else "nonneg-sec")
            if str(g) != m:
                kdis.append({"sec": p[0], "nsec": p[1], "impl": g, "model": m})
            if o != "ok":
                ofail.append({"sec": p[0], "nsec": p[1], "impl": g, "oracle": o})
    rep.sample({"instant": inst[5], "ToUnixMicros": impl.call("micros", Instants=[list(inst[5])])["res"][0]})
    # roundtrip
    us = [0, 1, -1, 999999, 1000000, -999999, -1000000, -1000001, 2**53, -(2**53)]
    us += [rng.range(-4 * 10**15, 4 * 10**15) for _ in range(2000 if tier == "quick" else 50000)]
    got = impl.call("fromMicros", Us=us)["res"]
    mres = model.ask_many(["C18 from %d" % u for u in us])
    rt_fail = []
    for u, g, m in zip(us, got, mres):
        rep.case(("u", u))
        if "%d %d" % (g[0], g[1]) != m:
            kdis.append({"us": u, "impl": g[:2], "model": m})
        if g[2] != u:
            rt_fail.append({"us": u, "FromUnixMicros": g[:2], "back": g[2]})
    rep.count("roundtrips", len(us))
    sweep_bad = []
    if tier == "thorough":
        for sec in (0, 1700000000, -3):
            r = impl.call("microsSweep", Sec=sec, From=0, To=1000000000, Workers=16)
            rep.count("sweep-instants", r["checked"])
            rep.evaluations += r["checked"]
            for b in r["bad"] or []:
                sweep_bad.append({"sec": sec, "nsec": b[0], "impl": b[1], "nearest": b[2]})
    else:
        r = impl.call("microsSweep", Sec=7, From=999000000, To=1000000000, Workers=8)
        rep.count("sweep-instants", r["checked"])
        rep.evaluations += r["checked"]
        for b in r["bad"] or []:
            sweep_bad.append({"sec": 7, "nsec": b[0], "impl": b[1], "nearest": b[2]})

    # ---- K-C18b: timer ----------------------------------------------------------
    tdis, early = [], []
    nscripts = 12 if tier == "quick" else 150
    corpus = [[("reset", 10), ("sleep", 100), ("reset", 10), ("recv", 0), ("sleep", 100), ("recv", 0), ("stop", 0)],
              [("reset", 10), ("sleep", 100), ("recv", 0), ("reset", 12), ("reset", 9), ("stop", 0), ("recv", 0)],
              [("reset", 10), ("stop", 0), ("sleep", 100), ("recv", 0), ("reset", 8), ("sleep", 100), ("reset", 8), ("sleep", 100), ("recv", 0), ("recv", 0)],
              # one Timer: an expiry that was read, then an expiry left unread, then Reset: the unread one must be drained
              [("reset", 10), ("sleep", 100), ("recv", 0), ("reset", 10), ("sleep", 100), ("reset", 3000), ("recv", 0), ("sleep", 100), ("recv", 0), ("stop", 0)],
              [("reset", 9), ("sleep", 100), ("recv", 0), ("reset", 9), ("sleep", 100), ("recv", 0), ("reset", 9), ("sleep", 100), ("reset", 3000), ("recv", 0), ("stop", 0)],
              # a Timer whose expiry was read is stopped and recycled through NewTimer: nothing of its past may show
              [("reset", 10), ("sleep", 100), ("recv", 0), ("stop", 0), ("reset", 10), ("sleep", 100), ("reset", 3000), ("recv", 0), ("sleep", 100), ("recv", 0), ("stop", 0)],
              [("reset", 9), ("sleep", 100), ("recv", 0), ("stop", 0), ("reset", 9), ("sleep", 100), ("recv", 0), ("stop", 0), ("reset", 9), ("sleep", 100), ("reset", 3000), ("recv", 0), ("stop", 0)]]
    scripts = corpus + [gen_timer_script(rng, rng.range(4, 12)) for _ in range(nscripts)]
    for ops in scripts:
        r = impl.call("timer", Ops=[{"K": k, "Ms": ms} for k, ms in ops])
        m = model.ask("C18 timer " + timer_tokens(ops))
        got = ",".join(r.get("res") or []) or "-"
        rep.case(("t", timer_tokens(ops)))
        for k, _ in ops:
            rep.count("timer-op-" + k)
        if got != m:
            tdis.append({"ops": timer_tokens(ops), "impl": got, "model": m})
        if r.get("early") or "blocked" in got:
            early.append({"ops": timer_tokens(ops), "impl": got, "early": r.get("early")})
    rep.sample({"timer_script": timer_tokens(scripts[0]), "outputs": model.ask("C18 timer " + timer_tokens(scripts[0]))})
    # durations that are no whole number of milliseconds (and below one): the expiry is awaited, its delay measured
    nearly = 0
    for mode in (0, 1, 2):
        us = [rng.pick([rng.range(1, 999), 1000 * rng.range(1, 25) + rng.range(1, 499), 1000 * rng.range(1, 25) + rng.range(500, 999),
                        rng.range(1000, 30000)]) for _ in range(6 if tier == "quick" else 40)]
        r = impl.call("timerEarly", Mode=mode, Us=us)
        took = r.get("took") or []
        rep.case(("early", mode, tuple(us)))
        rep.count("timer-awaited-expiries", len(us))
        nearly += len(us)
        if len(took) != len(us):
            early.append({"awaited": us, "mode": mode, "harness": r})
        for d, t in zip(us, took):
            if t < 0 or t < d * 1000:
                early.append({"awaited Reset (microseconds)": d, "fired after (ns)": t,
                              "timer": ["fresh", "re-armed after a read expiry", "re-armed while pending"][mode]})

    rep.obligation("K-C18a: ToUnixMicros/FromUnixMicros vs model on %d instants" % len(inst), "K", not kdis, json.dumps(kdis[:3]))
    rep.obligation("O-C18a: nearest-microsecond spec on real results (incl. sweep)", "O", not ofail and not sweep_bad and not rt_fail,
                   json.dumps((ofail + sweep_bad + rt_fail)[:3]))
    rep.obligation("K-C18b: real Timer vs model on %d scripts" % len(scripts), "K", not tdis, json.dumps(tdis[:3]))
    rep.obligation("O-C18b: no early fire (scripts, and %d awaited expiries of sub-millisecond / fractional durations), Reset never blocks (real Timer)" % nearly,
                   "O", not early, json.dumps(early[:3]))

    failing = ofail + sweep_bad
    if failing:
        f = failing[0]
        rep.violation("ToUnixMicros(%d s + %d ns) = %s is not the nearest microsecond" % (f["sec"], f["nsec"], f["impl"]),
                      {"failing_instants": failing[:10], "call": "timeutil.ToUnixMicros(time.Unix(sec, nsec))"},
                      tags={"fn": "ToUnixMicros", "carry": f["nsec"] >= 999999500})
    if rt_fail:
        rep.violation("ToUnixMicros(FromUnixMicros(us)) != us", {"failing": rt_fail[:10]}, tags={"fn": "roundtrip"})
    if early:
        rep.violation("Timer fired early or Reset blocked", {"failing": early[:5]}, tags={"fn": "Timer"})
    if not (failing or rt_fail or early):
        if not ok:
            rep.violation("proof obligations of C18 no longer check", {"broken_theorems": info["failed"], "lean_output": info["output"][-3000:]}, nofail=True)
        elif kdis or tdis:
            rep.violation("correspondence K-C18 disagrees", {"broken": "K-C18a/b", "disagreements": (kdis + tdis)[:10]}, nofail=True)
    impl.close()
    model.close()
    return rep.finish("cd lean && lake build ShkModel.Props.C18 && #print axioms",
                      "instants: all carry/half boundaries x 12 seconds + random (distinct (sec,nsec)); round-trips on random microsecond counts; a nanosecond sweep in Go against the closed form of theorem toUnixMicros_nearest; timer scripts with unambiguous waits")
