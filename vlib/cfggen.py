"""Generated ACCEPTED shakespeare configurations for C10 (and whoever needs whole configurations):
one abstract description (a list of clauses in file order, after preprocessing), rendered as
configuration text (with parameters, -D definitions, include files, continuation lines, free
white space) and as tokens for the Lean clause model; plus the parser that turns the text
printed back by shakespeare into the same abstract clauses.

Abstract clauses (tuples):
  ("title"|"author"|"attention", text)
  ("role", name, ext|None, [item])    item: ("action", n, cmd) ("spotlight", cmd) ("cleanup", cmd)
                                            ("signal", name, "event"|"scalar"|"delta", regexp as expanded)
  ("cast", name, mul|None, role, env)
  ("tempo", ns)
  ("entails", ch, ("actor"|"every", name), [action])     ("mood", ch, starts, mood)
  ("storyline", text)  ("edit", ch, repl)
  ("repfrom", re) ("reptime", ns|None) ("repcount", n|None)
  ("aud", member, "audits", ex) ("aud", m, "assign", var, mode|None, n, ex) ("aud", m, "expects", modality, ex)
  ("aud", m, "like", target) ("aud", m, "watchsig", (kind, name), sig) ("aud", m, "watchvar", v)
  ("aud", m, "measures", label) ("aud", m, "onlyhelps")
       ex = (source, [var])   var = ("c", name) | ("s", actor, signal)
  ("interp", "all", good)  ("interp", mode 0|1|2, target, good)         good: False = disappointment
"""
import re
from .common import hexs, unhex

MODALITIES = ["always", "never", "not always", "eventually", "always eventually", "eventually always",
              "once", "twice", "thrice", "at most once"]
TS_GROUPS = {
    "ts_now": "(?P<ts_now>)",
    "ts_rfc3339": r"(?P<ts_rfc3339>\d\d\d\d-\d\d-\d\dT\d\d:\d\d:\d\d(?:\.\d+)?Z)",
    "ts_log": r"(?P<ts_log>\d{6} \d\d:\d\d:\d\d\.\d{6})",
    "ts_deltasecs": r"(?P<ts_deltasecs>(?:\d+(?:\.\d+)?|\.\d+))",
}
FOUL_WORDS = {0: "ignore", 1: "foul upon", 2: "require"}
PREDEF = ["t", "mood", "moodt"]


# ---------------------------------------------------------------------------------------------
# Go durations
# ---------------------------------------------------------------------------------------------
UNIT_NS = {"ns": 1, "us": 1000, "µs": 1000, "μs": 1000, "ms": 10**6, "s": 10**9, "m": 60 * 10**9, "h": 3600 * 10**9}


def parse_duration(s):
    """Go's time.ParseDuration for the non-negative durations we generate or read back."""
    if s == "0":
        return 0
    total = 0
    pos = 0
    m = None
    for m in re.finditer(r"(\d+)(?:\.(\d+))?(ns|us|µs|μs|ms|s|m|h)", s):
        if m.start() != pos:
            raise ValueError("bad duration %r" % s)
        pos = m.end()
        whole, frac, unit = m.group(1), m.group(2) or "", m.group(3)
        total += int(whole) * UNIT_NS[unit]
        if frac:
            total += int(frac) * UNIT_NS[unit] // (10 ** len(frac))
    if pos != len(s) or m is None:
        raise ValueError("bad duration %r" % s)
    return total


# ---------------------------------------------------------------------------------------------
# rendering of one abstract clause list as model tokens
# ---------------------------------------------------------------------------------------------
def var_tok(v):
    return "c." + hexs(v[1]) if v[0] == "c" else "s.%s.%s" % (hexs(v[1]), hexs(v[2]))


def ex_tok(ex):
    return hexs(ex[0]) + "/" + (";".join(var_tok(v) for v in ex[1]) or "-")


def target_tok(t):
    return ("a" if t[0] == "actor" else "e") + "/" + hexs(t[1])


def opt(n):
    return "-" if n is None else str(n)


def clause_tok(c):
    k = c[0]
    if k == "title":
        return "T:" + hexs(c[1])
    if k == "author":
        return "U:" + hexs(c[1])
    if k == "attention":
        return "N:" + hexs(c[1])
    if k == "role":
        items = []
        for it in c[3]:
            if it[0] == "action":
                items.append("a/%s/%s" % (hexs(it[1]), hexs(it[2])))
            elif it[0] == "spotlight":
                items.append("s/" + hexs(it[1]))
            elif it[0] == "cleanup":
                items.append("c/" + hexs(it[1]))
            else:
                items.append("g/%s/%s/%s" % (hexs(it[1]), it[2][0], hexs(it[3])))
        return "R:%s:%s:%s" % (hexs(c[1]), "-" if c[2] is None else hexs(c[2]), ";".join(items) or "-")
    if k == "cast":
        return "K:%s:%s:%s:%s" % (hexs(c[1]), opt(c[2]), hexs(c[3]), hexs(c[4]))
    if k == "tempo":
        return "P:%d" % c[1]
    if k == "entails":
        return "E:%s:%s:%s" % (hexs(c[1]), target_tok(c[2]), ";".join(hexs(a) for a in c[3]) or "-")
    if k == "mood":
        return "M:%s:%s:%s" % (hexs(c[1]), "s" if c[2] else "e", hexs(c[3]))
    if k == "storyline":
        return "S:" + hexs(c[1])
    if k == "edit":
        return "D:%s:%s" % (hexs(c[1]), hexs(c[2]))
    if k == "repfrom":
        return "F:" + hexs(c[1])
    if k == "reptime":
        return "H:" + opt(c[1])
    if k == "repcount":
        return "O:" + opt(c[1])
    if k == "interp":
        if c[1] == "all":
            return "I:a:" + ("s" if c[2] else "d")
        return "I:%d:%s:%s" % (c[1], hexs(c[2]), "s" if c[3] else "d")
    if k == "aud":
        m, kind = hexs(c[1]), c[2]
        if kind == "audits":
            return "A:%s:au:%s" % (m, ex_tok(c[3]))
        if kind == "assign":
            return "A:%s:as:%s:%s:%d:%s" % (m, hexs(c[3]), "-" if c[4] is None else hexs(c[4]), c[5], ex_tok(c[6]))
        if kind == "expects":
            return "A:%s:ex:%s:%s" % (m, hexs(c[3]), ex_tok(c[4]))
        if kind == "like":
            return "A:%s:lk:%s" % (m, hexs(c[3]))
        if kind == "watchsig":
            return "A:%s:ws:%s:%s" % (m, target_tok(c[3]), hexs(c[4]))
        if kind == "watchvar":
            return "A:%s:wv:%s" % (m, hexs(c[3]))
        if kind == "measures":
            return "A:%s:me:%s" % (m, hexs(c[3]))
        if kind == "onlyhelps":
            return "A:%s:oh" % m
    raise ValueError(c)


def clauses_tok(cls):
    return " ".join(clause_tok(c) for c in cls) or "-"


def _uh(t):
    return unhex(t)


def parse_var_tok(t):
    p = t.split(".")
    return ("c", _uh(p[1])) if p[0] == "c" else ("s", _uh(p[1]), _uh(p[2]))


def parse_ex_tok(t):
    s, vs = t.split("/")
    return (_uh(s), [] if vs == "-" else [parse_var_tok(v) for v in vs.split(";")])


def parse_target_tok(t):
    k, n = t.split("/")
    return ("actor" if k == "a" else "every", _uh(n))


def unopt(t):
    return None if t == "-" else int(t)


def parse_clause_tok(t):
    f = t.split(":")
    k = f[0]
    if k == "T":
        return ("title", _uh(f[1]))
    if k == "U":
        return ("author", _uh(f[1]))
    if k == "N":
        return ("attention", _uh(f[1]))
    if k == "R":
        items = []
        for it in ([] if f[3] == "-" else f[3].split(";")):
            p = it.split("/")
            if p[0] == "a":
                items.append(("action", _uh(p[1]), _uh(p[2])))
            elif p[0] == "s":
                items.append(("spotlight", _uh(p[1])))
            elif p[0] == "c":
                items.append(("cleanup", _uh(p[1])))
            else:
                items.append(("signal", _uh(p[1]), {"e": "event", "s": "scalar", "d": "delta"}[p[2]], _uh(p[3])))
        return ("role", _uh(f[1]), None if f[2] == "-" else _uh(f[2]), items)
    if k == "K":
        return ("cast", _uh(f[1]), unopt(f[2]), _uh(f[3]), _uh(f[4]))
    if k == "P":
        return ("tempo", int(f[1]))
    if k == "E":
        return ("entails", _uh(f[1]), parse_target_tok(f[2]), [] if f[3] == "-" else [_uh(a) for a in f[3].split(";")])
    if k == "M":
        return ("mood", _uh(f[1]), f[2] == "s", _uh(f[3]))
    if k == "S":
        return ("storyline", _uh(f[1]))
    if k == "D":
        return ("edit", _uh(f[1]), _uh(f[2]))
    if k == "F":
        return ("repfrom", _uh(f[1]))
    if k == "H":
        return ("reptime", unopt(f[1]))
    if k == "O":
        return ("repcount", unopt(f[1]))
    if k == "I":
        if f[1] == "a":
            return ("interp", "all", f[2] == "s")
        return ("interp", int(f[1]), _uh(f[2]), f[3] == "s")
    if k == "A":
        m, kind = _uh(f[1]), f[2]
        if kind == "au":
            return ("aud", m, "audits", parse_ex_tok(f[3]))
        if kind == "as":
            return ("aud", m, "assign", _uh(f[3]), None if f[4] == "-" else _uh(f[4]), int(f[5]), parse_ex_tok(f[6]))
        if kind == "ex":
            return ("aud", m, "expects", _uh(f[3]), parse_ex_tok(f[4]))
        if kind == "lk":
            return ("aud", m, "like", _uh(f[3]))
        if kind == "ws":
            return ("aud", m, "watchsig", parse_target_tok(f[3]), _uh(f[4]))
        if kind == "wv":
            return ("aud", m, "watchvar", _uh(f[3]))
        if kind == "me":
            return ("aud", m, "measures", _uh(f[3]))
        if kind == "oh":
            return ("aud", m, "onlyhelps")
    raise ValueError(t)


def parse_clauses_tok(line):
    return [] if line.strip() in ("-", "") else [parse_clause_tok(t) for t in line.split(" ")]


def erase_vars(c):
    """what the text shows of a clause: the variables of an expression are not written."""
    if c[0] == "aud":
        if c[2] == "audits":
            return c[:3] + ((c[3][0], []),)
        if c[2] == "assign":
            return c[:6] + ((c[6][0], []),)
        if c[2] == "expects":
            return c[:4] + ((c[4][0], []),)
    return c


# ---------------------------------------------------------------------------------------------
# the printed configuration, parsed back into abstract clauses
# ---------------------------------------------------------------------------------------------
class PrintedSyntax(Exception):
    pass


def logical_lines(text):
    """the reader's view: continuation lines joined (backslash dropped, newline kept), trimmed,
    comments and blank lines skipped"""
    out = []
    cur = ""
    phys = text.split("\n")
    if phys and phys[-1] == "":
        phys.pop()
    for l in phys:
        if l.endswith("\\"):
            cur += l[:-1] + "\n"
            continue
        cur += l
        s = cur.strip(" \t\n\r\x0b\x0c")
        cur = ""
        if s == "" or s.startswith("#"):
            continue
        out.append(s)
    if cur != "":
        raise PrintedSyntax("continuation at end of text")
    return out


def parse_printed(text):
    """the text printed by printCfg -> abstract clauses (expressions without variables).
    Only the canonical layout of printCfg is understood; anything else raises PrintedSyntax."""
    ls = logical_lines(text)
    res = []
    i = 0

    def need(cond, l):
        if not cond:
            raise PrintedSyntax("cannot read printed line %r" % l)

    while i < len(ls):
        l = ls[i]
        i += 1
        if l.startswith("title "):
            res.append(("title", l[6:].strip()))
        elif l.startswith("author "):
            res.append(("author", l[7:].strip()))
        elif l.startswith("attention "):
            res.append(("attention", l[10:].strip()))
        elif l.startswith("role "):
            name = l[5:].strip()
            need(re.fullmatch(r"\S+", name), l)
            items = []
            while True:
                need(i < len(ls), l)
                x = ls[i]
                i += 1
                if x == "end":
                    break
                m = re.fullmatch(r"(?s):(\S+)\s+(.*)", x)
                if m:
                    items.append(("action", m.group(1), m.group(2).strip()))
                    continue
                m = re.fullmatch(r"(?s)(spotlight|cleanup)\s+(.*)", x)
                if m:
                    items.append((m.group(1), m.group(2).strip()))
                    continue
                m = re.fullmatch(r"(?s)signal\s+(\S+)\s+(event|scalar|delta)\s+at\s+(.*)", x)
                need(m, x)
                items.append(("signal", m.group(1), m.group(2), m.group(3).strip()))
            res.append(("role", name, None, items))
        elif l == "cast":
            while True:
                need(i < len(ls), l)
                x = ls[i]
                i += 1
                if x == "end":
                    break
                m = re.fullmatch(r"(?s)(\S+) plays (\S+)(?: with (.*))?", x)
                need(m, x)
                res.append(("cast", m.group(1), None, m.group(2), (m.group(3) or "").strip()))
        elif l == "script":
            while True:
                need(i < len(ls), l)
                x = ls[i]
                i += 1
                if x == "end":
                    break
                m = re.fullmatch(r"tempo (\S+)", x)
                if m:
                    res.append(("tempo", parse_duration(m.group(1))))
                    continue
                m = re.fullmatch(r"scene (\S) entails for (\S+):(.*)", x)
                if m:
                    acts = [a.strip() for a in m.group(3).split(";")]
                    res.append(("entails", m.group(1), ("actor", m.group(2)), [a for a in acts if a]))
                    continue
                m = re.fullmatch(r"scene (\S) mood (starts|ends) (\S+)", x)
                if m:
                    res.append(("mood", m.group(1), m.group(2) == "starts", m.group(3)))
                    continue
                m = re.fullmatch(r"storyline (.*)", x)
                if m:
                    res.append(("storyline", m.group(1).strip()))
                    continue
                m = re.fullmatch(r"(?s)repeat from (.*)", x)
                if m:
                    res.append(("repfrom", m.group(1).strip()))
                    continue
                if x == "repeat time unconstrained":
                    res.append(("reptime", None))
                    continue
                m = re.fullmatch(r"repeat time (\S+)", x)
                if m:
                    res.append(("reptime", parse_duration(m.group(1))))
                    continue
                if x == "repeat always":
                    res.append(("repcount", None))
                    continue
                m = re.fullmatch(r"repeat (\d+) times", x)
                need(m, x)
                res.append(("repcount", int(m.group(1))))
        elif l == "audience":
            while True:
                need(i < len(ls), l)
                x = ls[i]
                i += 1
                if x == "end":
                    break
                m = re.fullmatch(r"(?s)(\S+) (audits throughout|audits only while|computes|collects|expects|watches|measures|only helps)(?: (.*))?", x)
                need(m, x)
                who, kw, rest = m.group(1), m.group(2), (m.group(3) or "")
                if kw == "audits throughout":
                    res.append(("aud", who, "audits", ("true", [])))
                elif kw == "audits only while":
                    res.append(("aud", who, "audits", (rest.strip(), [])))
                elif kw == "computes":
                    mm = re.fullmatch(r"(?s)(\S+) as (.*)", rest)
                    need(mm, x)
                    res.append(("aud", who, "assign", mm.group(1), None, 0, (mm.group(2).strip(), [])))
                elif kw == "collects":
                    mm = re.fullmatch(r"(?s)(\S+) as (first|last|top|bottom) (\d+) (.*)", rest)
                    need(mm, x)
                    res.append(("aud", who, "assign", mm.group(1), mm.group(2), int(mm.group(3)), (mm.group(4).strip(), [])))
                elif kw == "expects":
                    mm = re.fullmatch(r"(?s)([a-z]+[a-z ]*[a-z])\s*:\s*(.*)", rest)
                    need(mm, x)
                    res.append(("aud", who, "expects", mm.group(1), (mm.group(2).strip(), [])))
                elif kw == "watches":
                    p = rest.split(" ")
                    need(len(p) in (1, 2), x)
                    if len(p) == 2:
                        res.append(("aud", who, "watchsig", ("actor", p[0]), p[1]))
                    else:
                        res.append(("aud", who, "watchvar", p[0]))
                elif kw == "measures":
                    res.append(("aud", who, "measures", rest.strip()))
                else:
                    res.append(("aud", who, "onlyhelps"))
        elif l == "interpretation":
            while True:
                need(i < len(ls), l)
                x = ls[i]
                i += 1
                if x == "end":
                    break
                m = re.fullmatch(r"(ignore|foul upon|require) (\S+) (disappointment|satisfaction)", x)
                need(m, x)
                res.append(("interp", {"ignore": 0, "foul upon": 1, "require": 2}[m.group(1)], m.group(2), m.group(3) == "satisfaction"))
        else:
            raise PrintedSyntax("cannot read printed line %r" % l)
    return res


# ---------------------------------------------------------------------------------------------
# the generator
# ---------------------------------------------------------------------------------------------
ACTOR_NAMES = ["alice", "bob", "carol", "dave", "erin", "frank", "günter", "hal9", "ivy_2"]
MULTI_BASES = ["w", "node", "cli"]
ROLE_NAMES = ["doctor", "nurse", "patient", "db", "client", "proxy"]
ACTION_NAMES = ["cure", "sleep", "ask", "wake", "run", "stop", "poke", "load", "a1", "b_2"]
SIG_NAMES = ["feel", "temp", "rate", "msg", "lag", "hits"]
MEMBER_NAMES = ["zoe", "yan", "xia", "walt", "vic", "uma"]
VAR_NAMES = ["v", "w2", "peak", "bin", "acc", "last_t", "lo", "hi"]
MOODS = ["blue", "red", "calm", "tense"]
SCENE_CHARS = list("abcdefgh12XY")
CMDS = ["echo hi", "echo medecine >>log.txt", "true", "sleep 0.01; echo done", "printf '%s\\n' \"$i\" >> out.$i",
        "echo 'a ~ b'", "if [ -e f ]; then echo yes; fi", "echo x | tr x y  # not a comment", "cat <<EOF\nhello\nEOF",
        "echo one;\necho two", "echo start && \\\n  echo 'second line' && \\\n    echo third", "tail -F log.txt"]
TITLES = ["a midsummer's dream", "much ado   about nothing", "measure # for measure", "the ~ tempest"]
LABELS = ["time (s)", "events/s", "temperature   in C", "x"]
TEMPOS = ["1s", "300ms", "1500ms", "2m", "1m30s", "250us", "1h", "0.5s", "90s"]
REP_TIMES = ["5m", "1500ms", "10s", "1h1m", "0.25s"]


class Gen:
    """builds one configuration; all randomness from rng (SplitMix)"""

    def __init__(self, rng, want=None):
        self.rng = rng
        self.feat = set()
        self.params = {}        # name -> effective value
        self.param_lines = []   # text lines defining defaults
        self.defines = []       # -D name=value
        self.roles = {}         # name -> dict(actions=[], sigs={name: kind}, spotlight=bool)
        self.role_order = []
        self.actors = {}        # name -> role
        self.actor_order = []
        self.scenes = []        # defined scene chars, in order
        self.story = None       # None until a storyline was given
        self.members = {}       # name -> dict(active, expects, obs(set))
        self.member_order = []
        self.vars = list(PREDEF)
        self.arrays = set()
        self.blocks = []        # (section kind, [text lines], [clauses])
        self.pcount = 0

    # -- helpers -----------------------------------------------------------------------------
    def sp(self, n=1):
        """white space where the grammar allows any amount"""
        r = self.rng
        if r.chance(1, 6):
            self.feat.add("free white space")
            return " " * r.range(2, 4) if r.chance(2, 3) else "\t"
        return " " * n

    def param(self, value, must=False, pad=False):
        """maybe write value as ~name~; returns the text to write.  pad: the place is free text, so a -D value may
        start / end with blanks (the loader trims the text after the substitution)"""
        r = self.rng
        if "~" in value or value == "" or not (must or r.chance(1, 4)):
            return value     # (values with a tilde / empty values: see the known finding)
        self.pcount += 1
        name = "p%d" % self.pcount
        how = r.below(4)
        if how == 0:        # default only
            self.param_lines.append("parameter%s%s defaults to %s" % (self.sp(), name, value))
            self.feat.add("parameter: in-file default")
        elif how == 1:      # -D only
            if pad and r.chance(1, 2):
                value = " " * r.range(0, 2) + value + r.pick([" ", "  ", "\t", ""])
                self.feat.add("parameter: -D value with outer blanks")
            self.defines.append("%s=%s" % (name, value))
            self.feat.add("parameter: -D only")
        elif how == 2:      # both: -D wins
            self.param_lines.append("parameter %s defaults to %s" % (name, "wrong" + value))
            self.defines.append("%s=%s" % (name, value))
            self.feat.add("parameter: -D over default")
        else:               # two defaults: the first wins; two -D: the first wins
            if r.chance(1, 2):
                self.param_lines.append("parameter %s defaults to %s" % (name, value))
                self.param_lines.append("parameter %s defaults to %s" % (name, "second" + value))
                self.feat.add("parameter: first default wins")
            else:
                self.defines.append("%s=%s" % (name, value))
                self.defines.append("%s=%s" % (name, "second" + value))
                self.feat.add("parameter: first -D wins")
        self.params[name] = value
        return "~%s~" % name

    def cmd(self):
        r = self.rng
        c = r.pick(CMDS)
        if "\n" in c:
            self.feat.add("multi-line command")
        return c

    @staticmethod
    def as_written(s, indent="    "):
        """a logical string with newlines, written with continuation lines"""
        return s.replace("\n", "\\\n")

    def block(self, kind, lines, clauses):
        self.blocks.append((kind, lines, clauses))

    # -- roles -------------------------------------------------------------------------------
    def gen_role(self):
        r = self.rng
        free = [n for n in ROLE_NAMES if n not in self.roles]
        if not free:
            return
        name = r.pick(free)
        ext = None
        if self.roles and r.chance(2, 5):
            ext = r.pick(self.role_order)
            self.feat.add("role extends")
        base = self.roles[ext] if ext else {"actions": [], "sigs": {}, "spotlight": False}
        info = {"actions": list(base["actions"]), "sigs": dict(base["sigs"]), "spotlight": base["spotlight"]}
        items, lines = [], []
        todo = []
        for _ in range(r.range(0 if ext else 1, 3)):
            todo.append("action")
        if r.chance(1, 2):
            todo.append("cleanup")
            if ext:
                self.feat.add("child role overrides cleanup/spotlight")
        nsig = r.range(0, 3)
        if nsig or r.chance(1, 3):
            if not info["spotlight"] or r.chance(1, 3):
                todo.append("spotlight")
        todo += ["signal"] * nsig
        todo = r.shuffle(todo)
        if "signal" in todo and not info["spotlight"] and "spotlight" not in todo:
            todo.append("spotlight")
        for k in todo:
            if k == "action":
                fa = [a for a in ACTION_NAMES if a not in info["actions"]]
                if not fa:
                    continue
                a = r.pick(fa)
                c = self.cmd()
                info["actions"].append(a)
                items.append(("action", a, c))
                lines.append("  :%s%s%s" % (a, self.sp(), self.as_written(c)))
            elif k in ("cleanup", "spotlight"):
                c = self.cmd()
                if k == "spotlight":
                    info["spotlight"] = True
                items.append((k, c))
                lines.append("  %s%s%s" % (k, self.sp(), self.as_written(c)))
            else:
                fs = [s for s in SIG_NAMES if s not in info["sigs"]]
                if not fs:
                    continue
                s = r.pick(fs)
                kind = r.pick(["event", "scalar", "delta"])
                ts = r.pick(list(TS_GROUPS))
                val = {"event": r.pick([r"\w+", "up|down", ".*"]), "scalar": r"\d+", "delta": r"[0-9.]+"}[kind]
                shape = r.below(3)
                if shape == 0:
                    src = "(?P<%s>)%s(?P<%s>%s)" % (ts, r.pick([" ", " x=", ": "]), kind, val)
                elif shape == 1:
                    src = "^(?P<%s>%s) at (?P<%s>)$" % (kind, val, ts)
                else:
                    src = "(?P<%s>) .* (?P<%s>%s)" % (ts, kind, val)
                exp = src.replace("(?P<%s>)" % ts, TS_GROUPS[ts], 1)
                info["sigs"][s] = kind
                items.append(("signal", s, kind, exp))
                lines.append("  signal%s%s%s%s at %s" % (self.sp(), s, self.sp(), kind, src))
                self.feat.add("signal %s/%s" % (kind, ts))
        nm = self.param(name)
        head = "role%s%s" % (self.sp(), nm)
        if ext:
            head += "%sextends%s%s" % (self.sp(), self.sp(), self.param(ext))
        self.roles[name] = info
        self.role_order.append(name)
        self.block("role", [head] + lines + ["end"], [("role", name, ext, items)])

    # -- cast --------------------------------------------------------------------------------
    def gen_cast(self):
        r = self.rng
        lines, cls = [], []
        for _ in range(r.range(1, 3)):
            role = r.pick(self.role_order)
            env = ""
            if r.chance(1, 2):
                env = r.pick(["A=1", "patient=alice  B=2", "X='a b'", "k=~"])
                self.feat.add("cast with env")
            if r.chance(1, 3):
                fb = [b for b in MULTI_BASES if not any(a.startswith(b) and a[len(b):].isdigit() for a in self.actors)]
                if not fb:
                    continue
                b = r.pick(fb)
                n = r.range(0, 3) if r.chance(1, 6) else r.range(1, 3)
                plural = role + "s" if (r.chance(1, 2) and not role.endswith("s") and role + "s" not in self.roles) else role
                if plural != role:
                    self.feat.add("multi-actor cast, plural role")
                ln = "  %s*%splay%s%s%s%s" % (b, self.sp(), self.sp(), self.param(str(n)), self.sp(), plural)
                if env:
                    ln += "%swith%s%s" % (self.sp(), self.sp(), self.param(env, pad=True))
                lines.append(ln)
                cls.append(("cast", b, n, plural, env))
                for i in range(n):
                    an = "%s%d" % (b, i + 1)
                    self.actors[an] = role
                    self.actor_order.append(an)
                self.feat.add("multi-actor cast" + (" with env" if env else ""))
            else:
                fa = [a for a in ACTOR_NAMES if a not in self.actors]
                if not fa:
                    continue
                a = r.pick(fa)
                ln = "  %s%splays%s%s" % (a, self.sp(), self.sp(), self.param(role))
                if env:
                    ln += "%swith%s%s" % (self.sp(), self.sp(), self.param(env, pad=True))
                lines.append(ln)
                cls.append(("cast", a, None, role, env))
                self.actors[a] = role
                self.actor_order.append(a)
        if lines:
            self.block("cast", lines, cls)

    # -- script ------------------------------------------------------------------------------
    def target(self, need_actions=False, need_sig=False):
        """(target, text, role info) or None"""
        r = self.rng
        cands = []
        for a in self.actor_order:
            cands.append((("actor", a), a, self.roles[self.actors[a]]))
        for ro in self.role_order:
            cands.append((("every", ro), None, self.roles[ro]))
        if need_actions:
            cands = [c for c in cands if c[2]["actions"]]
        if need_sig:
            cands = [c for c in cands if c[2]["sigs"]]
        if not cands:
            return None
        t, txt, info = r.pick(cands)
        if t[0] == "every":
            # (selectActors wants "every" followed by a blank: a tab is rejected)
            txt = "every%s%s" % (" " * self.rng.range(1, 2), self.param(t[1]))
            self.feat.add("target: every role")
        return t, txt, info

    def actors_of(self, t):
        if t[0] == "actor":
            return [t[1]]
        return [a for a in self.actor_order if self.actors[a] == t[1]]

    def story_text(self):
        """a storyline over the defined scenes: (text as written, text the parser sees)"""
        r = self.rng
        acts = []
        for _ in range(r.range(1, 3)):
            act = ""
            for _ in range(r.range(1, 4)):
                k = r.below(8)
                if k < 2:
                    act += "."
                elif k < 6 or len(self.scenes) < 2:
                    act += r.pick(self.scenes)
                else:
                    grp = [r.pick(self.scenes) for _ in range(r.range(2, 3))]
                    act += "+".join(grp)
                    self.feat.add("storyline with + group")
                if r.chance(1, 8):
                    act += "_"
                    self.feat.add("storyline with _ padding")
            acts.append(act)
        sep = " " if not r.chance(1, 5) else "  "
        return sep.join(acts)

    def gen_script(self):
        r = self.rng
        lines, cls = [], []
        n = r.range(1, 6)
        for _ in range(n):
            k = r.below(14)
            if k == 0:
                d = r.pick(TEMPOS)
                lines.append("  tempo%s%s" % (self.sp(), d))
                cls.append(("tempo", parse_duration(d)))
                self.feat.add("tempo")
            elif k < 5:
                tg = self.target(need_actions=True)
                if not tg:
                    continue
                t, txt, info = tg
                ch = r.pick(SCENE_CHARS)
                acts = []
                for _ in range(r.range(0, 3) if r.chance(1, 6) else r.range(1, 3)):
                    a = r.pick(info["actions"])
                    if r.chance(1, 4):
                        a += "?"
                        self.feat.add("action with ?")
                    acts.append(a)
                sep = r.pick(["; ", ";", " ; ", ";  "])
                lines.append("  scene%s%s%sentails%sfor%s%s%s%s" % (self.sp(), ch, self.sp(), self.sp(), self.sp(), txt,
                                                                   r.pick([":", " :", ": "]), sep.join(acts) + (";" if r.chance(1, 8) else "")))
                cls.append(("entails", ch, t, acts))
                if self.actors_of(t):
                    if ch not in self.scenes:
                        self.scenes.append(ch)
                else:
                    self.feat.add("entails for a role nobody plays (dropped)")
                if not acts:
                    self.feat.add("entails with no action")
            elif k < 7:
                ch = r.pick(SCENE_CHARS)
                starts = r.chance(1, 2)
                m = r.pick(MOODS)
                lines.append("  scene %s mood%s%s%s%s" % (ch, self.sp(), "starts" if starts else "ends", self.sp(), m))
                cls.append(("mood", ch, starts, m))
                if ch not in self.scenes:
                    self.scenes.append(ch)
                self.feat.add("scene mood")
            elif k < 10:
                if not self.scenes:
                    continue
                txt = self.story_text()
                lines.append("  storyline%s%s" % (self.sp(), txt))
                cls.append(("storyline", txt))
                if self.story is not None:
                    self.feat.add("merged storylines")
                self.story = True
            elif k == 10:
                if not self.story or not self.scenes:
                    continue
                ch = r.pick(self.scenes)
                repl = r.pick([ch + r.pick(self.scenes), r.pick(self.scenes), ch + "." + ch, r.pick(self.scenes) + "+" + ch])
                lines.append("  edit s/%s/%s/" % (ch, repl))
                cls.append(("edit", ch, repl))
                self.feat.add("edit")
            elif k == 11:
                ch = r.pick(self.scenes) if self.scenes else "q"
                rx = r.pick([ch, ch + "+", "^" + ch, "[%s]" % ch, "zz"])
                if rx in ("times", "always"):
                    continue
                lines.append("  repeat%sfrom%s%s" % (self.sp(), self.sp(), rx))
                cls.append(("repfrom", rx))
                self.feat.add("repeat from")
            elif k == 12:
                if r.chance(1, 3):
                    lines.append("  repeat%salways" % self.sp())
                    cls.append(("repcount", None))
                else:
                    nn = r.range(0, 9)
                    lines.append("  repeat%s%s%stimes" % (self.sp(), self.param(str(nn)), self.sp()))
                    cls.append(("repcount", nn))
                self.feat.add("repeat count")
            else:
                if r.chance(1, 3):
                    lines.append("  repeat time unconstrained")
                    cls.append(("reptime", None))
                else:
                    d = r.pick(REP_TIMES)
                    lines.append("  repeat%stime%s%s" % (self.sp(), self.sp(), self.param(d)))
                    cls.append(("reptime", parse_duration(d)))
                self.feat.add("repeat time")
        if lines:
            self.block("script", lines, cls)

    # -- audience ----------------------------------------------------------------------------
    def member(self, name):
        if name not in self.members:
            self.members[name] = {"active": None, "expects": None, "obs": []}
            self.member_order.append(name)
        return self.members[name]

    def expr(self):
        """(text as written, logical source, vars)"""
        r = self.rng
        vs = []

        def scalar():
            k = r.below(6)
            if k < 2:
                v = r.pick(["t", "moodt"])
                vs.append(("c", v))
                return v
            if k < 4:
                sc = [v for v in self.vars if v not in PREDEF and v not in self.arrays]
                if sc:
                    v = r.pick(sc)
                    vs.append(("c", v))
                    return v
            if k < 5:
                ar = sorted(self.arrays)
                if ar:
                    v = r.pick(ar)
                    vs.append(("c", v))
                    return "%s(%s)" % (r.pick(["count", "avg", "max", "first", "med"]), v)
            cands = [(a, s) for a in self.actor_order for s, kd in self.roles[self.actors[a]]["sigs"].items() if kd != "event"]
            if cands:
                a, s = r.pick(cands)
                vs.append(("s", a, s))
                self.feat.add("expression over a signal")
                return "[%s %s]" % (a, s)
            vs.append(("c", "t"))
            return "t"

        k = r.below(10)
        if k == 0:
            src = r.pick(["true", "1 > 0", "false || true"])
        elif k == 1:
            vs.append(("c", "mood"))
            src = "mood %s '%s'" % (r.pick(["==", "!="]), r.pick(MOODS))
        elif k == 2:
            cands = [(a, s) for a in self.actor_order for s, kd in self.roles[self.actors[a]]["sigs"].items() if kd == "event"]
            if cands:
                a, s = r.pick(cands)
                vs.append(("s", a, s))
                src = "[%s %s] %s '%s'" % (a, s, r.pick(["==", "=~"]), r.pick(["up", "ok.*"]))
                self.feat.add("expression over a signal")
            else:
                src = "t >= 0"
                vs.append(("c", "t"))
        elif k < 7:
            lim = self.param(str(r.range(0, 50)), pad=True)
            if lim.startswith("~"):
                self.feat.add("parameter in an expression")
            src = "%s %s %s" % (scalar(), r.pick(["<", "<=", ">", ">=", "=="]), lim)
        else:
            nl = ""
            if r.chance(1, 5):
                nl = "\n" + " " * r.range(0, 6)
                self.feat.add("multi-line expression")
            src = "%s %s %s %s%s%s %s" % (scalar(), r.pick(["+", "-", "*"]), scalar(), nl, r.pick(["<", ">"]), self.sp(), r.range(1, 99))
        # the variables govaluate reports: distinct, in order of first occurrence
        seen = []
        for v in vs:
            if v not in seen:
                seen.append(v)
        return src, seen

    def value_expr(self):
        src, vs = self.expr()
        return src, vs

    def subst(self, text):
        # (the loader trims a text after the substitution)
        return re.sub(r"~(\w+)~", lambda m: self.params[m.group(1)], text).strip()

    def note_obs(self, mem, vs):
        for v in vs:
            if v[0] == "s" and v not in mem["obs"]:
                mem["obs"].append(v)

    def gen_audience(self):
        r = self.rng
        lines, cls = [], []
        for _ in range(r.range(1, 8)):
            if r.chance(3, 4) and self.member_order:
                name = r.pick(self.member_order + [r.pick(MEMBER_NAMES)])
            else:
                name = r.pick(MEMBER_NAMES)
            if len(self.member_order) > 1 and name in self.members and name != self.member_order[-1]:
                self.feat.add("audience clauses interleaved across members")
            k = r.below(16)
            exists = name in self.members
            mem = self.members.get(name, {"active": None, "expects": None, "obs": []})
            if k < 2:
                if mem["active"] is not None:
                    continue
                if r.chance(1, 3):
                    txt, src, vs = "throughout", "true", []
                    lines.append("  %s%saudits%sthroughout" % (name, self.sp(), self.sp()))
                else:
                    w, vs = self.expr()
                    src = self.subst(w)
                    kw = r.pick(["while", "when"])
                    self.feat.add("audits only " + kw)
                    lines.append("  %s%saudits%sonly%s%s %s" % (name, self.sp(), self.sp(), self.sp(), kw, self.as_written(w)))
                mem = self.member(name)
                mem["active"] = src
                self.note_obs(mem, vs)
                cls.append(("aud", name, "audits", (src, vs)))
                self.feat.add("audits")
            elif k < 6:
                fv = [v for v in VAR_NAMES if v not in self.vars]
                if not fv:
                    continue
                v = r.pick(fv)
                w, vs = self.expr()
                src = self.subst(w)
                mem = self.member(name)
                if mem["active"] is None:
                    mem["active"] = "true"
                    self.feat.add("synthesized audits throughout")
                self.note_obs(mem, vs)
                if r.chance(1, 2):
                    lines.append("  %s%scomputes%s%s%sas%s%s" % (name, self.sp(), self.sp(), v, self.sp(), self.sp(), self.as_written(w)))
                    cls.append(("aud", name, "assign", v, None, 0, (src, vs)))
                    self.feat.add("computes")
                else:
                    mode = r.pick(["first", "last", "top", "bottom"])
                    n = r.range(1, 20)
                    lines.append("  %s collects%s%s as%s%s %d%s%s" % (name, self.sp(), v, self.sp(), mode, n, self.sp(), self.as_written(w)))
                    cls.append(("aud", name, "assign", v, mode, n, (src, vs)))
                    self.arrays.add(v)
                    self.feat.add("collects " + mode)
                self.vars.append(v)
            elif k < 8:
                if mem["expects"] is not None:
                    continue
                w, vs = self.expr()
                src = self.subst(w)
                md = r.pick(MODALITIES)
                mem = self.member(name)
                if mem["active"] is None:
                    mem["active"] = "true"
                    self.feat.add("synthesized audits throughout")
                mem["expects"] = (md, src, vs)
                self.note_obs(mem, vs)
                lines.append("  %s%sexpects%s%s%s%s" % (name, self.sp(), self.sp(), md, r.pick([":", " : ", ": "]), self.as_written(w)))
                cls.append(("aud", name, "expects", md, (src, vs)))
                self.feat.add("expects " + md)
            elif k == 8:
                tgs = [m for m in self.member_order if self.members[m]["expects"] is not None and m != name]
                if not tgs or mem["expects"] is not None:
                    continue
                tg = r.pick(tgs)
                mem = self.member(name)
                tm = self.members[tg]
                if mem["active"] is None:
                    mem["active"] = tm["active"]
                    self.feat.add("expects like: activation copied")
                mem["expects"] = tm["expects"]
                lines.append("  %s%sexpects%slike%s%s" % (name, self.sp(), self.sp(), self.sp(), tg))
                cls.append(("aud", name, "like", tg))
                self.feat.add("expects like")
            elif k < 11:
                tg = self.target(need_sig=True)
                if not tg:
                    continue
                t, txt, info = tg
                s = r.pick(sorted(info["sigs"]))
                lines.append("  %s%swatches%s%s%s%s" % (name, self.sp(), self.sp(), txt, self.sp(), s))
                cls.append(("aud", name, "watchsig", t, s))
                acts = self.actors_of(t)
                if acts:
                    mem = self.member(name)
                    self.note_obs(mem, [("s", a, s) for a in acts])
                    self.feat.add("watches %s signal" % ("every-role" if t[0] == "every" else "actor"))
                else:
                    self.feat.add("watches a role nobody plays (dropped)")
            elif k < 13:
                v = r.pick(self.vars)
                mem = self.member(name)
                if ("c", v) not in mem["obs"]:
                    mem["obs"].append(("c", v))
                lines.append("  %s%swatches%s%s" % (name, self.sp(), self.sp(), v))
                cls.append(("aud", name, "watchvar", v))
                self.feat.add("watches a %s variable" % ("predefined" if v in PREDEF else "computed"))
            elif k < 15:
                lb = r.pick(LABELS)
                self.member(name)
                lines.append("  %s%smeasures%s%s" % (name, self.sp(), self.sp(), lb))
                cls.append(("aud", name, "measures", lb))
                self.feat.add("measures")
            else:
                self.member(name)
                lines.append("  %s%sonly%shelps" % (name, self.sp(), self.sp()))
                cls.append(("aud", name, "onlyhelps"))
                self.feat.add("only helps")
        if lines:
            self.block("audience", lines, cls)

    def gen_zigzag(self):
        """audience clauses whose definitions zig-zag between members: a member mentioned early computes a
        variable from one computed by a member mentioned later, …, and a member in the middle has nothing
        but clauses that use the last variable of the chain, while a member after it has a clause that
        depends on nothing (what printCfg must hold back, and in which order members must be mentioned)"""
        r = self.rng
        fm = [m for m in MEMBER_NAMES if m not in self.members]
        fv = [v for v in VAR_NAMES if v not in self.vars]
        if len(fm) < 3 or len(fv) < 2:
            return
        fm = r.shuffle(fm)
        early, late = fm[0], fm[1]
        lines, cls = [], []

        def add(line, clause):
            lines.append("  " + line)
            cls.append(clause)

        self.member(early)
        add("%s measures %s" % (early, r.pick(LABELS)), ("aud", early, "measures", lines and LABELS[0] or LABELS[0]))
        cls[-1] = ("aud", early, "measures", lines[-1].split(" measures ", 1)[1])
        victim = None
        if len(fm) > 3 and r.chance(1, 2):
            # the victim is mentioned between the two: its only clause comes at the end
            victim = fm[3]
        depth = r.range(2, min(4, len(fv)))
        prev = "t"
        for j in range(depth):
            who = late if j % 2 == 0 else early
            v = fv[j]
            mem = self.member(who)
            if mem["active"] is None:
                mem["active"] = "true"
            src = "%s + %d" % (prev, j + 1)
            add("%s computes %s as %s" % (who, v, src), ("aud", who, "assign", v, None, 0, (src, [("c", prev)])))
            self.vars.append(v)
            prev = v
        user = fm[2]
        self.member(user)
        k = r.below(3)
        if k == 0:
            add("%s watches %s" % (user, prev), ("aud", user, "watchvar", prev))
        elif k == 1:
            src = "%s > 1" % prev
            self.members[user]["active"] = src
            add("%s audits only while %s" % (user, src), ("aud", user, "audits", (src, [("c", prev)])))
        else:
            src = "%s < 100" % prev
            self.members[user]["active"] = "true"
            md = r.pick(MODALITIES)
            self.members[user]["expects"] = (md, src, [("c", prev)])
            add("%s expects %s: %s" % (user, md, src), ("aud", user, "expects", md, (src, [("c", prev)])))
        if victim is not None:
            self.member(victim)
            add("%s only helps" % victim, ("aud", victim, "onlyhelps"))
        self.feat.add("zig-zag definitions across members")
        self.block("audience", lines, cls)

    def gen_interp(self):
        r = self.rng
        lines, cls = [], []
        for _ in range(r.range(1, 3)):
            good = r.chance(1, 2)
            word = "satisfaction" if good else "disappointment"
            if r.chance(1, 4) or not self.member_order:
                lines.append("  ignore%s%s" % (self.sp(), word))
                cls.append(("interp", "all", good))
                self.feat.add("interpretation shorthand")
            else:
                m = r.pick(self.member_order)
                mode = r.below(3)
                kw = FOUL_WORDS[mode].replace(" ", self.sp())
                lines.append("  %s%s%s%s%s" % (kw, self.sp(), m, self.sp(), word))
                cls.append(("interp", mode, m, good))
                self.feat.add("interpretation " + FOUL_WORDS[mode])
        self.block("interpretation", lines, cls)

    def gen_heading(self):
        r = self.rng
        k = r.below(3)
        t = r.pick(TITLES)
        if k == 0:
            w = t + (" " + self.param("part " + str(r.range(1, 9)), must=True, pad=True) if r.chance(1, 2) else "")
            self.block("top", ["title %s" % w], [("title", self.subst(w))])
            self.feat.add("title")
        elif k == 1:
            a = r.pick(["shakespeare", "w. s.  and ~friends~"])
            self.block("top", ["author %s" % a], [("author", a)])
            self.feat.add("author (not preprocessed)")
        else:
            self.block("top", ["attention %s" % t], [("attention", t)])
            self.feat.add("attention")

    # -- whole configuration -------------------------------------------------------------------
    def build(self):
        r = self.rng
        for _ in range(r.range(1, 3)):
            self.gen_role()
        steps = r.range(3, 14)
        for _ in range(steps):
            k = r.below(20)
            if k < 2:
                self.gen_role()
            elif k < 5:
                self.gen_cast()
            elif k < 10:
                if self.actors:
                    self.gen_script()
            elif k < 15:
                self.gen_audience()
            elif k < 16:
                self.gen_zigzag()
            elif k < 18:
                self.gen_interp()
            else:
                self.gen_heading()
        return self

    def clauses(self):
        res = []
        for _, _, cls in self.blocks:
            res += cls
        return res

    def render(self):
        """-> (files: name -> text, main file name, include path list (relative dirs), defines)"""
        r = self.rng
        out = []
        prev = None
        chunks = []      # top-level chunks of text (each a list of lines)
        for kind, lines, _ in self.blocks:
            if kind in ("role", "top"):
                chunks.append(list(lines))
                prev = None
                continue
            if prev == kind and r.chance(1, 2):
                chunks[-1] = chunks[-1][:-1] + lines + ["end"]
            else:
                chunks.append([kind] + lines + ["end"])
            prev = kind
        files = {}
        incdirs = []
        main = []
        if r.chance(1, 3):
            main.append("# generated configuration")
            main.append("")
        ninc = 0
        use_inc = r.chance(2, 5)
        for ch in chunks:
            if use_inc and r.chance(1, 4) and ninc < 3:
                ninc += 1
                fn = "part%d.cfg" % ninc
                where = r.below(3)
                if where == 0:
                    files[fn] = "\n".join(ch) + "\n"
                    main.append("include %s" % fn)
                elif where == 1:
                    files["sub/" + fn] = "\n".join(ch) + "\n"
                    main.append("include sub/%s" % fn)
                else:
                    files["lib/" + fn] = "\n".join(ch) + "\n"
                    if "lib" not in incdirs:
                        incdirs.append("lib")
                    nm = fn[:-4]
                    main.append("include %s.cfg" % self.param(nm, must=True) if r.chance(1, 2) else "include %s" % fn)
                self.feat.add("include")
                continue
            main += ch
            if r.chance(1, 5):
                main.append("")
            if r.chance(1, 8):
                main.append("   # a comment \\")
                main.append("   continued")
        # parameter clauses must precede their use; they were collected while generating
        text = "\n".join(self.param_lines + main) + "\n"
        files["main.cfg"] = text
        return files, "main.cfg", incdirs, list(self.defines)


def generate(rng):
    g = Gen(rng).build()
    files, main, incdirs, defines = g.render()
    return {"files": files, "main": main, "incdirs": incdirs, "defines": defines, "clauses": g.clauses(),
            "features": sorted(g.feat), "members": list(g.member_order)}
