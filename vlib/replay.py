"""Best-effort replayer for the replay files written by Report.violation: re-runs the stored
failing input against the code built from /repo's current working tree and prints what happens.
Exit status: 1 if the stored failure is still observed, 0 if it no longer is, 2 if the file
only names a broken theorem / correspondence (no input to run)."""
import json
import sys
from .common import *
from . import e2e


def replay(path):
    doc = json.load(open(path))
    rp = doc.get("replay", {})
    print("property:", doc.get("property"))
    print("what:", doc.get("what"))
    if doc.get("no_failing_input_found"):
        print("no failing input was found; what no longer checks:")
        print(json.dumps({k: rp[k] for k in rp if k in ("broken", "broken_theorems", "disagreements")}, indent=1, default=str)[:3000])
        return 2
    build_go()
    if "events" in rp and "config" in rp:
        impl = Impl()
        r = impl.call("audition", Args={"Parse": {"Text": rp["config"]}, "Events": rp["events"], "EpochOffset": 1000.0, "WithCollector": True})
        impl.close()
        print("config:\n" + rp["config"])
        print("collector events:", json.dumps(r.get("Events"))[:3000])
        print("judged:", json.dumps(r.get("Judged"))[:1500])
        print("stored failure:", {k: rp[k] for k in rp if k in ("oracle", "markers", "impl_reports", "word", "modality", "auditor")})
        return 1
    if "lines" in rp and "config" in rp:
        impl = Impl()
        r = impl.call("audition", Args={"Parse": {"Text": rp["config"]}, "EpochUnix": 1577836800, "WithCollector": True,
                                        "Lines": [{"Actor": l[0], "Line": l[1]} for l in rp["lines"]]})
        impl.close()
        print("config:\n" + rp["config"])
        print("lines:", rp["lines"])
        print("csv now:", json.dumps(r.get("Csv"), indent=1)[:3000])
        print("stored:", rp.get("file"), rp.get("real_rows"), "expected", rp.get("expected_points"))
        return 1
    if "failing_instants" in rp:
        impl = Impl()
        inst = [[f["sec"], f["nsec"]] for f in rp["failing_instants"]]
        got = impl.call("micros", Instants=inst)["res"]
        impl.close()
        still = 0
        for f, g in zip(rp["failing_instants"], got):
            want = (f["sec"] * 10**9 + f["nsec"] + 500) // 1000
            print("ToUnixMicros(%d s + %d ns) = %d, nearest = %d" % (f["sec"], f["nsec"], g, want))
            still += g != want
        return 1 if still else 0
    if "config" in rp:
        p = e2e.Play(rp["config"], args=[a for a in rp.get("args", []) if not a.startswith("VERIF_POINTS=") and a != "-o" and not a.startswith("/proc")],
                     points=next((a.split("=", 1)[1] for a in rp.get("args", []) if a.startswith("VERIF_POINTS=")), None), timeout=120)
        r = p.run()
        print("config:\n" + rp["config"])
        print("exit status now:", r["rc"], "wall %.1fs" % r["wall"])
        print((r["stdout"] or "")[-1500:])
        print("stored problems:", rp.get("problems"))
        return 1
    print(json.dumps(rp, indent=1, default=str)[:4000])
    return 1
