"""C13 — an actor's commands always run in that actor's own directory and environment.

Claim level: PARTIAL.  Proved (Lean, Props/C13.lean) about the models of Model/Script.lean and
Model/Paths.lean: the layout of every generated script (cd to the actor's directory, then
TMPDIR/HOME, then the redirection iff not a spotlight, then the `with` text, then the command), the
multi-actor expansion (names base1..baseN, `i=k` first in the environment text), completeness of the
script set per actor (also for extended roles), the working directory being <run dir>/artifacts/<actor>.
Tied to the real code by
  K-C13a  generated casts (single and multi-actor lines, shared and extended roles, `with` strings of
          shell assignments, multi-line commands): the real prepareDirs/prepareActionCommands run
          in-process; set of actors, working directory, environment text, set of scripts and the exact
          text of every script vs the model (the time-stamp and echo lines of redirected scripts are
          modelled too, so the comparison is byte for byte),
  O-C13a  the Lean layout specification (layoutOk) evaluated on the text of the real scripts,
  K/O-C13b real plays in which every action, spotlight and cleanup appends $0, $PWD, $TMPDIR, $HOME, $i
          and the `with` variables to a ledger next to the configuration; commands are invoked directly
          and through another actor's prepared script (../<actor>/actions/<action>.sh); values vs the
          model's; <action>.log holds one output line per invocation; no _spotlight.log, the spotlight's
          lines reach the signal filter (CSV rows carry 100+i).
Trusted, not modelled: what bash does with the script (cd, set -a exporting assignments, exec >>file),
the filesystem, process environment inheritance."""
import json
import os
import re
from .common import *
from . import e2e

PROP = "C13"
LEDGER = "../../../../play.ledger"      # from <cwd>/out/<run>/artifacts/<actor> back to the play's cwd
VARS = ["V0", "V1", "V2"]
# identifiers may contain symbols (\\p{S}): such names end up in the generated scripts and in the log file names
ACTION_NAMES = ["go", "stop", "ping", "reload", "flush", "tick", "wipe", "sync", "up>down", "$cost", "t=1", "n^2", "x<y", "`bq"]


def with_text(rng, vals, multiline_ok=True):
    """a `with` string of shell assignments for the given {var: value}"""
    if not vals:
        return ""
    parts = []
    for k, v in vals.items():
        if " " in v or rng.chance(1, 3):
            q = rng.pick(["'", '"'])
            parts.append("%s=%s%s%s" % (k, q, v, q))
        else:
            parts.append("%s=%s" % (k, v))
    sep = rng.pick([" ", "; ", " "] + (["\n", " \n  "] if multiline_ok else []))
    return sep.join(parts)


def gen_cast(rng, ledger):
    """abstract description: roles (possibly extending earlier ones), cast lines (single / multi).
    ledger=True: commands write the ledger; otherwise they are arbitrary text."""
    nroles = rng.range(1, 3)
    roles, eff = [], {}
    pool = list(ACTION_NAMES)
    for k in range(nroles):
        name = "r%d" % k
        parent = "r%d" % rng.below(k) if k > 0 and rng.chance(1, 2) else None
        base = eff[parent] if parent else {"actions": [], "spotlight": "", "cleanup": ""}
        taken = [n for n, _ in base["actions"]]
        acts = []
        for _ in range(rng.range(0 if parent else 1, 3)):
            cand = [n for n in pool if n not in taken]
            if not cand:
                break
            n = rng.pick(cand)
            taken.append(n)
            acts.append(n)
        spot = rng.chance(1, 2)
        clean = rng.chance(1, 2)
        roles.append({"name": name, "parent": parent, "actions": acts, "spotlight": spot, "cleanup": clean})
        eff[name] = {"actions": base["actions"] + [(n, name) for n in acts],
                     "spotlight": name if spot else base["spotlight"], "cleanup": name if clean else base["cleanup"]}
    cast, actors = [], []
    bases = ["a", "b", "c<5", "d$"]   # actor names are identifiers too: symbols allowed
    for k in range(rng.range(1, 4)):
        if len(actors) >= 5:
            break
        role = "r%d" % rng.below(nroles)
        mul = None if rng.chance(1, 2) else rng.pick([1, 2, 2, 3] + ([0] if not ledger else []))
        vals = {v: "%s%d%s" % (bases[k][0], rng.below(90), rng.pick(["", "", " x", "%", "%d", "%%", "%3", " 5%s"])) for v in VARS if rng.chance(1, 2)}
        w = with_text(rng, vals)
        # `b* play 2 doctors`: the plural of a role name is accepted in a multi-actor line (and only there)
        written = role + "s" if (mul is not None and rng.chance(1, 3)) else role
        cast.append({"base": bases[k], "mul": mul, "role": role, "written": written, "with": w, "vals": vals})
        if mul is None:
            actors.append({"name": bases[k], "idx": None, "role": role, "vals": vals})
        else:
            for i in range(mul):
                actors.append({"name": "%s%d" % (bases[k], i + 1), "idx": i, "role": role, "vals": vals})
    return {"roles": roles, "eff": eff, "cast": cast, "actors": actors}


def ledger_cmd(role, act):
    fields = ["$0", "$PWD", "${TMPDIR-unset}", "${HOME-unset}", "${i-unset}"] + ["${%s-unset}" % v for v in VARS]
    # (role and action names between single quotes: a name may contain `$`, `<`, a back quote …)
    return "echo 'L|%s|%s|'\"%s\" >> %s" % (role, act, "|".join(fields), LEDGER)


def fill_commands(rng, g, ledger):
    """choose the command text of every action / spotlight / cleanup; in ledger mode add `via` actions that
    run another actor's prepared script"""
    cmds = {}
    for r in g["roles"]:
        for n in r["actions"]:
            if ledger:
                cmds[(r["name"], n)] = ledger_cmd(r["name"], n) + "; echo 'OUT-%s-'\"$(basename \"$PWD\")\"" % n
            else:
                pieces = [rng.pick(["echo hi", "true", "sleep 0", "echo \"$PWD\" 'q  q'", "x=1; echo $x", "cat <<< y | tr y z", "echo é ✓", "set -x", "cd /", "exec >>other.log"])
                          for _ in range(rng.range(1, 3))]
                cmds[(r["name"], n)] = rng.pick([" && ", "; ", "\n", " \n  "]).join(pieces)
        if r["spotlight"]:
            cmds[(r["name"], "_spotlight")] = (ledger_cmd(r["name"], "_spotlight") + '; while true; do echo "v $((100 + ${i-50}))"; sleep 0.03; done') if ledger \
                else rng.pick(["tail -F x.log", "while true; do date; sleep 1; done", "echo a\necho b"])
        if r["cleanup"]:
            cmds[(r["name"], "_cleanup")] = (ledger_cmd(r["name"], "_cleanup") + '; echo "OUT-_cleanup-$(basename "$PWD")"') if ledger \
                else rng.pick(["rm -f x.log", "true", "echo cleaning; rm -rf tmp"])
    g["cmds"] = cmds
    g["via"] = []
    if ledger and len(g["actors"]) >= 2:
        # one `via` action per role that has actors: runs the prepared script of an actor (of any role)
        for r in g["roles"]:
            users = [a for a in g["actors"] if a["role"] == r["name"] or r["name"] in [x[1] for x in g["eff"][a["role"]]["actions"]]]
            if not users or not rng.chance(3, 4):
                continue
            target = rng.pick(g["actors"])
            tacts = g["eff"][target["role"]]["actions"]
            tacts = [t for t in tacts if not t[0].startswith("via")]
            if not tacts:
                continue
            tact = rng.pick(tacts)[0]
            n = "via%s" % r["name"]
            r["actions"].append(n)
            cmds[(r["name"], n)] = "'../%s/actions/%s.sh'; echo 'OUT-%s-'\"$(basename \"$PWD\")\"" % (target["name"], tact, n)
            g["via"].append({"role": r["name"], "action": n, "target": target["name"], "target_action": tact})
        # recompute the effective roles with the via actions
        eff = {}
        for r in g["roles"]:
            base = eff[r["parent"]] if r["parent"] else {"actions": [], "spotlight": "", "cleanup": ""}
            eff[r["name"]] = {"actions": base["actions"] + [(n, r["name"]) for n in r["actions"]],
                              "spotlight": r["name"] if r["spotlight"] else base["spotlight"], "cleanup": r["name"] if r["cleanup"] else base["cleanup"]}
        g["eff"] = eff
    return g


def esc(s):
    return s.replace("\n", "\\\n")


def config_text(g, ledger):
    out = []
    has_sig = {}
    for r in g["roles"]:
        out.append("role %s%s" % (r["name"], " extends %s" % r["parent"] if r["parent"] else ""))
        for n in r["actions"]:
            out.append("  :%s %s" % (n, esc(g["cmds"][(r["name"], n)])))
        if r["spotlight"]:
            out.append("  spotlight %s" % esc(g["cmds"][(r["name"], "_spotlight")]))
            if ledger and not has_sig.get(r["parent"]):
                out.append("  signal v scalar at (?P<ts_now>)v (?P<scalar>\\d+)")
                has_sig[r["name"]] = True
        if r["cleanup"]:
            out.append("  cleanup %s" % esc(g["cmds"][(r["name"], "_cleanup")]))
        has_sig[r["name"]] = has_sig.get(r["name"]) or has_sig.get(r["parent"])
        out.append("end")
    out.append("cast")
    for c in g["cast"]:
        w = " with " + esc(c["with"]) if c["with"] else ""
        if c["mul"] is None:
            out.append("  %s plays %s%s" % (c["base"], c["role"], w))
        else:
            out.append("  %s* play %d %s%s" % (c["base"], c["mul"], c.get("written", c["role"]), w))
    out.append("end")
    out.append("script")
    out.append("  tempo 40ms")
    if ledger:
        chars = "pqrstuvwxyz"
        story = []
        for k, a in enumerate(g["actors"]):
            acts = [n for n, _ in g["eff"][a["role"]]["actions"]]
            if not acts:
                continue
            out.append("  scene %s entails for %s: %s" % (chars[k], a["name"], "; ".join(acts)))
            story.append(chars[k])
        if story:
            out.append("  storyline " + "".join(story))
    out.append("end")
    if ledger:
        watch = []
        for a in g["actors"]:
            if g["eff"][a["role"]]["spotlight"]:
                watch.append("  bob watches %s v" % a["name"])
        if watch:
            out += ["audience"] + watch + ["end"]
    return "\n".join(out) + "\n"


def tokens(g):
    def opt(s):
        return hexs(s) if s is not None else "-"
    rt = []
    for r in g["roles"]:
        acts = "+".join("%s=%s" % (hexs(n), hexs(g["cmds"][(r["name"], n)])) for n in r["actions"]) or "-"
        rt.append(":".join([hexs(r["name"]), opt(r["parent"]), opt(g["cmds"].get((r["name"], "_spotlight"))),
                            opt(g["cmds"].get((r["name"], "_cleanup"))), acts]))
    ct = [":".join([hexs(c["base"]), "-" if c["mul"] is None else str(c["mul"]), hexs(c.get("written", c["role"])), hexs(c["with"].strip())]) for c in g["cast"]]
    return ",".join(rt) or "-", ",".join(ct) or "-"


def parse_model_scripts(m):
    """-> {actor: {workDir, extraEnv, idx, scripts{key: text}}}"""
    res = {}
    if m in ("-", None):
        return res
    for ent in m.split(";"):
        n, wd, env, idx, fs = ent.split("~")
        scripts = {}
        if fs != "-":
            for kv in fs.split(","):
                k, v = kv.split("=")
                scripts[unhex(k)] = unhex(v)
        res[unhex(n)] = {"workDir": unhex(wd), "extraEnv": unhex(env), "idx": None if idx == "-" else int(idx), "scripts": scripts}
    return res


def run(tier, seed):
    rep = Report(PROP, tier, seed, "proof")      # claim: partial, see the module text and `assumptions`
    rep.assumptions = [
        "bash executes the generated script as written (cd, `set -a` exporting the assignments of the `with` text, `exec >>file 2>&1`); exercised end-to-end, not modelled",
        "the `with` text is made of shell assignments (the property's domain); a single actor's `i` and variables an invoked actor does not define itself are not constrained (they are inherited from the invoking command)",
        "action names beginning with `_` are outside the generated domain (an action called _spotlight or _cleanup shares its script file with the role's spotlight / cleanup)",
        "no directory on the way to the output directory is a symbolic link"]
    try:
        build_go()
        build_driver()
    except BuildError as e:
        rep.obligation("build", "K", False, e.output)
        rep.violation("build failed: " + e.what, {"output": e.output[-4000:], "broken": "K-C13 (build)"}, nofail=True)
        return rep.finish("./check C13", "n/a")
    impl, model = Impl(), Model()
    ok, info = standard_proof_step(rep, PROP, thorough=(tier == "thorough"))
    rng = SplitMix(seed)
    kdis, ofail = [], []
    shell = os.environ.get("SHELL", "/bin/bash")

    with Scratch("verif-c13-") as scratch:
        scratch = os.path.realpath(scratch)
        # ---- K-C13a / O-C13a: script text, in-process ------------------------------------------------
        n_a = 120 if tier == "quick" else 2500
        nscripts = 0
        for n in range(n_a):
            g = fill_commands(rng, gen_cast(rng, False), False)
            text = config_text(g, False)
            o = rng.pick(["out", "a/b/out", ".", scratch + "/abs%d/o" % n, "x/../out", "./o/"])
            cwd = os.path.join(scratch, "k%d" % n)
            os.makedirs(os.path.join(cwd, "x"))
            sub = "%014d" % (20260930000000 + n)
            r = impl.call("prepdirs", Args={"Text": text}, Cwd=cwd, DataDir=o, SubDir=sub)
            rt, ct = tokens(g)
            m = model.ask("C13 scripts %s %s %s %s %s %s" % (hexs(shell), hexs(cwd), hexs(o), hexs(sub), rt, ct))
            rep.case(("scripts", text, o))
            rep.count("cast:lines", len(g["cast"]))
            for c in g["cast"]:
                rep.count("cast:" + ("single" if c["mul"] is None else "multi N=%d" % c["mul"]) )
                if c.get("written", c["role"]) != c["role"]:
                    rep.count("cast:plural role name")
                rep.count("cast:with " + ("none" if not c["with"] else "multi-line" if "\n" in c["with"] else "one line"))
            for r_ in g["roles"]:
                rep.count("role:" + ("extends" if r_["parent"] else "plain"))
            used = [c["role"] for c in g["cast"]]
            rep.count("role:shared by several cast lines", sum(1 for x in set(used) if used.count(x) > 1))
            if r.get("harnessError") or r.get("err") or r.get("panicked") or m is None or m in ("rejected", "bad-op"):
                kdis.append({"config": text, "-o": o, "impl": {k: v for k, v in r.items() if k != "scripts"}, "model": (m or "")[:200]})
                continue
            mm = parse_model_scripts(m)
            real = r.get("scripts") or {}
            mism = []
            if set(real) != set(mm):
                mism.append("actors %s vs %s" % (sorted(real), sorted(mm)))
            for an in set(real) & set(mm):
                ra = real[an]
                rs = {k: v for k, v in ra.items() if (k.startswith("action:") or k in ("spotlight", "cleanup")) and not k.endswith("@path")}
                if ra.get("workDir") != mm[an]["workDir"]:
                    mism.append("%s workDir %r vs %r" % (an, ra.get("workDir"), mm[an]["workDir"]))
                if ra.get("extraEnv") != mm[an]["extraEnv"]:
                    mism.append("%s extraEnv %r vs %r" % (an, ra.get("extraEnv"), mm[an]["extraEnv"]))
                if set(rs) != set(mm[an]["scripts"]):
                    mism.append("%s scripts %s vs %s" % (an, sorted(rs), sorted(mm[an]["scripts"])))
                for k in set(rs) & set(mm[an]["scripts"]):
                    nscripts += 1
                    if rs[k] != mm[an]["scripts"][k]:
                        mism.append("%s %s text differs: real %r model %r" % (an, k, rs[k], mm[an]["scripts"][k]))
                    # the script sits in the actor's own actions directory
                    want = os.path.join(ra.get("workDir", ""), "actions", (k[7:] if k.startswith("action:") else "_" + k) + ".sh")
                    if ra.get(k + "@path") != want:
                        mism.append("%s %s written to %r, expected %r" % (an, k, ra.get(k + "@path"), want))
                    # O: layout specification on the real text
                    act = k[7:] if k.startswith("action:") else "_" + k
                    role = next(a["role"] for a in g["actors"] if a["name"] == an)
                    src = next(rn for nn, rn in g["eff"][role]["actions"] if nn == act) if k.startswith("action:") else g["eff"][role][k]
                    cmd = g["cmds"][(src, act)]
                    ol = model.ask("C13 oracle-layout %s %s %s %s %s %s" % (hexs(rs[k]), "1" if k == "spotlight" else "0", hexs(ra.get("workDir", "")),
                                                                            hexs(act), hexs(ra.get("extraEnv", "")), hexs(cmd.strip())))
                    if ol != "ok":
                        ofail.append({"what": "script %s of actor %s: %s" % (k, an, ol), "tag": {"kind": "layout", "script": "spotlight" if k == "spotlight" else "redirected"},
                                      "config": text, "-o": o, "script": rs[k]})
            if mism:
                kdis.append({"config": text, "-o": o, "cwd": cwd, "mismatch": mism[:6]})
        rep.count("scripts compared", nscripts)
        rep.sample({"config": text, "model": (m or "")[:300]})
        rep.obligation("K-C13a: actors, working directories, environment text, script sets and the exact text of %d real scripts (%d casts) vs model" % (nscripts, n_a),
                       "K", not kdis, json.dumps(kdis[:2], default=str)[:1800])
        rep.obligation("O-C13a: layout specification (layoutOk) on the text of the real scripts", "O", not ofail, json.dumps(ofail[:2], default=str)[:1500])
        na, no_a = len(kdis), len(ofail)

        # ---- K-C13r: the role sections the parser refuses (the premise of parser_guarantees_distinct_actions) ----
        n_r = 60 if tier == "quick" else 1200
        kdis_r = []
        for n in range(n_r):
            g = fill_commands(rng, gen_cast(rng, False), False)
            kind = rng.pick(["own-duplicate", "inherited-duplicate", "role-duplicate", "unknown-parent", "forward-parent", "none"])
            roles = g["roles"]
            if kind == "own-duplicate":
                cand = [r_ for r_ in roles if r_["actions"]]
                if cand:
                    r_ = rng.pick(cand)
                    r_["actions"].insert(rng.below(len(r_["actions"]) + 1), rng.pick(r_["actions"]))
                else:
                    kind = "none"
            elif kind == "inherited-duplicate":
                cand = [r_ for r_ in roles if r_["parent"] and g["eff"][r_["parent"]]["actions"]]
                if cand:
                    r_ = rng.pick(cand)
                    nm, src = rng.pick(g["eff"][r_["parent"]]["actions"])
                    r_["actions"].insert(rng.below(len(r_["actions"]) + 1), nm)
                    g["cmds"][(r_["name"], nm)] = g["cmds"][(src, nm)] if rng.chance(1, 2) else "echo redefined"
                elif len(roles) >= 2:
                    # make the second role extend the first (which always has an action) and repeat one of its actions
                    roles[1]["parent"] = "r0"
                    nm = rng.pick(roles[0]["actions"])
                    roles[1]["actions"].insert(rng.below(len(roles[1]["actions"]) + 1), nm)
                    g["cmds"][("r1", nm)] = "echo redefined"
                else:
                    kind = "none"
            elif kind == "role-duplicate":
                r_ = rng.pick(roles)
                roles.append(dict(r_, actions=list(r_["actions"])))
            elif kind == "unknown-parent":
                rng.pick(roles)["parent"] = "r9"
            elif kind == "forward-parent":
                k = rng.below(len(roles))
                roles[k]["parent"] = "r%d" % rng.range(k, len(roles) - 1)    # itself or a later role
            text = config_text(g, False)
            cwd = os.path.join(scratch, "r%d" % n)
            os.makedirs(cwd)
            sub = "%014d" % (20260930100000 + n)
            r = impl.call("prepdirs", Args={"Text": text}, Cwd=cwd, DataDir="out", SubDir=sub)
            rt, ct = tokens(g)
            m = model.ask("C13 scripts %s %s %s %s %s %s" % (hexs(shell), hexs(cwd), hexs("out"), hexs(sub), rt, ct))
            rep.case(("roles", kind, text))
            rep.count("rejections:" + kind)
            err = r.get("err") or ""
            for phrase in ("duplicate action name", "duplicate role definition", "unknown role"):
                if phrase in err:
                    rep.count("rejections:impl says " + phrase)
            impl_rej = bool(err)
            model_rej = (m == "rejected")
            if r.get("harnessError") or r.get("panicked") or m in (None, "bad-op") or impl_rej != model_rej or (kind == "none") == impl_rej:
                kdis_r.append({"kind": kind, "config": text, "impl": {k: v for k, v in r.items() if k != "scripts"}, "model": (m or "")[:200]})
        rep.obligation("K-C13r: %d role sets with a repeated action (own or inherited), a repeated role name, an unknown or forward parent, or none of these: refused by the parser iff refused by defineRoles" % n_r,
                       "K", not kdis_r, json.dumps(kdis_r[:2], default=str)[:1800])
        kdis += kdis_r
        na = len(kdis)

        # ---- K/O-C13b: real plays with a ledger -------------------------------------------------------
        n_b = 24 if tier == "quick" else 300
        plays, gs = [], []
        while len(plays) < n_b:
            g = fill_commands(rng, gen_cast(rng, True), True)
            if not any(g["eff"][a["role"]]["actions"] for a in g["actors"]):
                continue
            text = config_text(g, True)
            # every third play lives in an output directory whose name the shell must not interpret
            odir = "out" if len(plays) % 3 else "o'q $HOME `x` <y>"
            rep.count("e2e:output directory " + ("plain" if odir == "out" else "with quote, $, back quotes, blanks"))
            plays.append(e2e.Play(text, args=["-k", "-q"], outdir_arg=odir, timeout=90, keep=True))
            gs.append((g, text))
        results = e2e.run_many(plays, workers=12)
        for p, r, (g, text) in zip(plays, results, gs):
            rep.case(("play", text))
            rep.count("e2e:plays")
            rep.count("e2e:actors", len(g["actors"]))
            rep.count("e2e:via actions", len(g["via"]))
            problems = []
            if r["rc"] != 0 or r["timed_out"] or not r["rundir"]:
                # every command of a generated play succeeds when it runs where the script says
                ofail.append({"what": "a generated play whose commands all succeed in their own directory exits with status %s" % r["rc"], "tag": {"kind": "play-failed"},
                              "config": text, "argv": r["argv"], "stderr": (r["stderr"] or "")[-1500:], "ledger": (r["ledger"].get("play.ledger") or "")[:2000]})
                p.cleanup()
                continue
            rt, ct = tokens(g)
            runid = os.path.basename(r["rundir"])
            m = model.ask("C13 scripts %s %s %s %s %s %s" % (hexs("/bin/bash"), hexs(r["cwd"]), hexs(p.outdir_arg or "out"), hexs(runid), rt, ct))
            mm = parse_model_scripts(m) if m not in (None, "rejected", "bad-op") else None
            if mm is None:
                kdis.append({"config": text, "model": m})
                p.cleanup()
                continue
            byname = {a["name"]: a for a in g["actors"]}
            entries = []
            for l in (r["ledger"].get("play.ledger") or "").splitlines():
                f = l.split("|")
                if len(f) == 8 + len(VARS) and f[0] == "L":
                    entries.append({"role": f[1], "act": f[2], "arg0": f[3], "pwd": f[4], "tmpdir": f[5], "home": f[6], "i": f[7], "vars": dict(zip(VARS, f[8:]))})
                else:
                    problems.append(("malformed ledger line %r" % l, {"kind": "ledger"}))
            count = {}
            for e in entries:
                parts = e["arg0"].split("/")
                owner = parts[-3] if len(parts) >= 3 and parts[-2] == "actions" else None
                via = not e["arg0"].startswith("/")
                rep.count("e2e:ledger " + ("via another actor's script" if via else "_spotlight" if e["act"] == "_spotlight" else "_cleanup" if e["act"] == "_cleanup" else "direct action"))
                if owner not in mm:
                    problems.append(("ledger entry from an unknown script %r" % e["arg0"], {"kind": "ledger"}))
                    continue
                a, ma = byname[owner], mm[owner]
                count[(owner, e["act"])] = count.get((owner, e["act"]), 0) + 1
                how = "through another actor's script" if via else "directly"
                kind = "via" if via else "direct"
                if e["pwd"] != ma["workDir"]:
                    problems.append(("%s:%s invoked %s ran in %s, not in its own directory %s" % (owner, e["act"], how, e["pwd"], ma["workDir"]), {"kind": "cwd", "invoked": kind}))
                if e["tmpdir"] != ma["workDir"]:
                    problems.append(("%s:%s invoked %s: TMPDIR=%s, expected %s" % (owner, e["act"], how, e["tmpdir"], ma["workDir"]), {"kind": "TMPDIR", "invoked": kind}))
                if e["home"] != ma["workDir"] + "/.." or not os.path.realpath(e["home"]).startswith(os.path.realpath(r["rundir"]) + os.sep):
                    problems.append(("%s:%s invoked %s: HOME=%s, expected %s/.." % (owner, e["act"], how, e["home"], ma["workDir"]), {"kind": "HOME", "invoked": kind}))
                if ma["idx"] is not None and e["i"] != str(ma["idx"]):
                    problems.append(("%s:%s invoked %s: i=%s, expected %d" % (owner, e["act"], how, e["i"], ma["idx"]), {"kind": "i", "invoked": kind}))
                if ma["idx"] is None and not via and e["i"] != "unset":
                    problems.append(("%s:%s (single actor) invoked directly: i=%s" % (owner, e["act"], e["i"]), {"kind": "i", "invoked": kind}))
                for v, val in a["vals"].items():
                    if e["vars"].get(v) != val:
                        problems.append(("%s:%s invoked %s: %s=%r, its with clause says %r" % (owner, e["act"], how, v, e["vars"].get(v), val), {"kind": "with", "invoked": kind}))
                if not via and e["arg0"] != os.path.join(ma["workDir"], "actions", e["act"] + ".sh"):
                    problems.append(("%s:%s ran from script %s" % (owner, e["act"], e["arg0"]), {"kind": "script-path"}))
            # every scheduled command left its entry
            for a in g["actors"]:
                eff = g["eff"][a["role"]]
                for n_, _src in eff["actions"]:
                    if count.get((a["name"], n_), 0) < (0 if n_.startswith("via") else 1):
                        problems.append(("no ledger entry for %s:%s" % (a["name"], n_), {"kind": "missing-entry"}))
                if eff["cleanup"] and count.get((a["name"], "_cleanup"), 0) != 2:
                    problems.append(("cleanup of %s ran %d times" % (a["name"], count.get((a["name"], "_cleanup"), 0)), {"kind": "missing-entry"}))
                if eff["spotlight"] and count.get((a["name"], "_spotlight"), 0) != 1:
                    problems.append(("spotlight of %s left %d entries" % (a["name"], count.get((a["name"], "_spotlight"), 0)), {"kind": "missing-entry"}))
            for v in g["via"]:
                users = [a for a in g["actors"] if (v["action"], v["role"]) in g["eff"][a["role"]]["actions"]]
                direct = 1
                if users and count.get((v["target"], v["target_action"]), 0) < direct + len(users):
                    problems.append(("%s:%s should have run %d times through %s besides its own scene, ledger has %d entries" %
                                     (v["target"], v["target_action"], len(users), v["action"], count.get((v["target"], v["target_action"]), 0)), {"kind": "missing-entry"}))
            # logs: one output line per invocation, appended to <action>.log in the actor's directory
            for v in g["via"]:
                for a in g["actors"]:
                    if (v["action"], v["role"]) in g["eff"][a["role"]]["actions"]:
                        logf = os.path.join(mm[a["name"]]["workDir"], v["action"] + ".log")
                        try:
                            lines = open(logf).read().splitlines()
                        except OSError:
                            lines = []
                        if lines.count("OUT-%s-%s" % (v["action"], a["name"])) != 1:
                            problems.append(("%s does not hold the output of %s:%s" % (logf, a["name"], v["action"]), {"kind": "log"}))
            for (owner, act), cnt in count.items():
                wd = mm[owner]["workDir"]
                logf = os.path.join(wd, act + ".log")
                if act == "_spotlight":
                    if os.path.exists(logf):
                        problems.append(("spotlight of %s has a log file %s" % (owner, logf), {"kind": "spotlight-log"}))
                    continue
                try:
                    lines = open(logf).read().splitlines()
                except OSError:
                    problems.append(("no %s for %d invocations" % (logf, cnt), {"kind": "log"}))
                    continue
                outs = [l for l in lines if l == "OUT-%s-%s" % (act, owner)]
                stamps = [l for l in lines if re.fullmatch(r"\d{4}-\d\d-\d\dT\d\d:\d\d:\d\dZ", l)]
                if len(outs) != cnt or len(stamps) != cnt:
                    problems.append(("%s holds %d output lines and %d time stamps for %d invocations" % (logf, len(outs), len(stamps), cnt), {"kind": "log"}))
            # spotlight output reaches the signal filter: CSV rows carry 100+i (50 when i is unset)
            for a in g["actors"]:
                if g["eff"][a["role"]]["spotlight"]:
                    rows = (r["csv"].get("bob.%s.v.csv" % a["name"]) or "").splitlines()
                    want = str(100 + (a["idx"] if a["idx"] is not None else 50))
                    vals = [x.split()[1] for x in rows if len(x.split()) >= 2]
                    rep.count("e2e:signal rows", len(vals))
                    if not vals or any(v != want for v in vals):
                        problems.append(("signal v of %s: %d rows, values %s, expected %s" % (a["name"], len(vals), sorted(set(vals))[:4], want), {"kind": "spotlight-signal"}))
            for what, tag in problems:
                ofail.append({"what": what, "tag": tag, "config": text, "argv": r["argv"], "ledger": (r["ledger"].get("play.ledger") or "")[:3000]})
            p.cleanup()
        rep.sample({"play": gs[0][1], "ledger": (results[0]["ledger"].get("play.ledger") or "").splitlines()[:4]})

        # ---- reserved names: an action called _cleanup / _spotlight (legal identifiers) --------------------
        for n, (resv, kw) in enumerate([("_cleanup", "cleanup"), ("_spotlight", "spotlight")]):
            text = "role r\n  :%s echo ACTION-BODY\n  :go echo go\n  %s echo ROLE-BODY\nend\ncast\n  a plays r\nend\nscript\n  tempo 30ms\n  scene x entails for a: %s; go\n  storyline x\nend\n" % (resv, kw, resv)
            cwd = os.path.join(scratch, "resv%d" % n)
            os.makedirs(cwd)
            r = impl.call("prepdirs", Args={"Text": text}, Cwd=cwd, DataDir="out", SubDir="20260930120000")
            rt = ":".join([hexs("r"), "-", hexs("echo ROLE-BODY") if kw == "spotlight" else "-", hexs("echo ROLE-BODY") if kw == "cleanup" else "-",
                           "%s=%s+%s=%s" % (hexs(resv), hexs("echo ACTION-BODY"), hexs("go"), hexs("echo go"))])
            ct = ":".join([hexs("a"), "-", hexs("r"), hexs("")])
            m = model.ask("C13 scripts %s %s %s %s %s %s" % (hexs(shell), hexs(cwd), hexs("out"), hexs("20260930120000"), rt, ct))
            mm = parse_model_scripts(m) if m and m not in ("rejected", "bad-op") else {}
            real = ((r.get("scripts") or {}).get("a") or {})
            got = real.get("action:" + resv)
            rep.case(("reserved", resv))
            rep.count("reserved action name " + resv)
            if got != (mm.get("a") or {"scripts": {}})["scripts"].get("action:" + resv):
                kdis.append({"config": text, "problem": "script of action %s: real %r, model %r" % (resv, got, m)})
            if got is None or not got.endswith("echo ACTION-BODY\n"):
                ofail.append({"what": "the script of action %s does not run the action's command: it ends with %r (the role's %s command is written to the same file actions/%s.sh afterwards)"
                                      % (resv, (got or "").splitlines()[-1:], kw, resv),
                              "tag": {"kind": "reserved-action-name"}, "config": text, "script": got})
        rep.obligation("K-C13b/c: %d generated plays run and the model accepts their casts; reserved action names: real script = model's (last write wins)" % len(plays),
                       "K", len(kdis) == na, json.dumps(kdis[na:na + 2], default=str)[:1800])
        later = ofail[no_a:]
        unknown = [f for f in later if rep.match_known(f["tag"]) is None]
        rep.count("inputs-hitting-a-known-finding", len(later) - len(unknown))
        rep.obligation("O-C13b: ledger values (cwd, TMPDIR, HOME, i, with variables; direct and via another actor's script) = model's; <action>.log appended per invocation; "
                       "spotlight output reaches the signal filter; the script file of an action holds that action's command (inputs matching a known finding excepted)",
                       "O", not unknown, json.dumps(unknown[:2], default=str)[:1800])
    if ofail:
        seen = set()
        for f in ofail:
            k = json.dumps(f["tag"], sort_keys=True)
            if k in seen:
                continue
            seen.add(k)
            rep.violation(f["what"], dict(f, all_of_this_kind=[x["what"] for x in ofail if x["tag"] == f["tag"]][:12]), tags=f["tag"])
    if not [f for f in ofail if rep.match_known(f["tag"]) is None]:
        if not ok:
            rep.violation("proof obligations of C13 no longer check", {"broken_theorems": info["failed"], "lean_output": info["output"][-3000:]}, nofail=True)
        elif kdis:
            rep.violation("correspondence K-C13 disagrees", {"broken": "K-C13", "disagreements": kdis[:6]}, nofail=True)
    impl.close()
    model.close()
    return rep.finish("cd lean && lake build ShkModel.Props.C13 && #print axioms",
                      "casts: 1-3 roles (each may extend an earlier one, override spotlight/cleanup), 1-4 cast lines (single or N in 0..3, roles shared), with strings of 0-3 shell assignments (quoted, `;`, multi-line), commands of 1-3 pieces incl. multi-line; -o in {out, a/b/out, ., absolute, x/../out, ./o/}; plays: every actor runs every action of its role, plus via-actions that call another actor's prepared script",
                      explanation="claim level: partial. Theorems cover the generated script text, the cast expansion and the working directory path as models; what bash does with the script is trusted and exercised end-to-end through the ledger")
