"""C16 — log entries survive formatting, decoding, rotation and garbage collection."""
import calendar
import json
from .common import *

PROP = "C16"
CAP = 65536          # bufio.MaxScanTokenSize: the window through which EntryDecoder.split sees its input
INT64 = 2 ** 63 - 1

FILE_ALPHA = list("abcxyzXYZ_/.-0123456789") + [" ", "é", "日"]
MSG_ALPHA = list("abcdefghijklmnopqrstuvwxyzIWEF0123456789") + [" ", " ", ":", ".", ",", "\t", "=", "[", "]", "é", "日本", "✓", "%"]
HEADERISH = ["I200101 00:00:00.000000 12 f.go:1  x", "E991231 23:59:59.999999 file.go:77", "W200229 12:00:00,000000 3 a:0",
             "F680101 01:02:03.000004 main/ops_log.go:9  ", "I200101 00:00:00.000000 :1", "I", "I2001", "W200101 00:00:00.000000 77 "]


def ask_all(proc, lines, budget=12000):
    """LineProc.ask_many writes a whole chunk before it reads; with long lines that can fill both
    pipes.  Here a chunk never carries more than `budget` bytes (requests and answers are of
    similar size), longer lines go one by one."""
    res, cur, size = [], [], 0
    for l in lines:
        if cur and (size + len(l) > budget or len(cur) >= 150):
            res += proc.ask_many(cur)
            cur, size = [], 0
        if len(l) > budget:
            res.append(proc.ask(l))
        else:
            cur.append(l)
            size += len(l)
    if cur:
        res += proc.ask_many(cur)
    return res


def hx(s):
    return s.encode("utf-8").hex()


def unhx(h):
    return bytes.fromhex(h).decode("utf-8", "replace")


def ns_of(y, mo, d, h=0, mi=0, s=0, ns=0):
    return calendar.timegm((y, mo, d, h, mi, s)) * 10 ** 9 + ns


EDGE_TIMES = [ns_of(2000, 1, 1), ns_of(2000, 1, 1, 0, 0, 0, 999), ns_of(2068, 12, 31, 23, 59, 59, 999999999),
              ns_of(2000, 2, 29, 12, 0, 0, 500), ns_of(2024, 2, 29, 23, 59, 59, 999999000), ns_of(2067, 3, 1),
              ns_of(2038, 1, 19, 3, 14, 8), ns_of(2009, 9, 9, 9, 9, 9, 9009009), ns_of(2010, 10, 10, 10, 10, 10, 101010101)]
OUT_TIMES = [ns_of(1999, 12, 31, 23, 59, 59, 999999999), ns_of(2069, 1, 1), 0, ns_of(1970, 1, 2), ns_of(2100, 2, 28),
             ns_of(2262, 1, 1), ns_of(1969, 6, 1), ns_of(2099, 12, 31, 23, 59, 59)]


def rand_text(rng, alpha, n):
    return "".join(rng.pick(alpha) for _ in range(n))


def gen_msg(rng, others):
    k = rng.below(10)
    if k == 0:
        return ""
    if k <= 2:   # header-like text inside the message
        return (rand_text(rng, MSG_ALPHA, rng.below(6)) + " " + rng.pick(HEADERISH) + rand_text(rng, MSG_ALPHA, rng.below(8))).strip()
    if k == 3 and others:   # a whole formatted entry quoted inside a message
        return ("quoted: " + rng.pick(others)).strip()
    if k == 4:
        return rng.pick(HEADERISH).strip()
    return rand_text(rng, MSG_ALPHA, rng.range(1, 40)).strip()


def gen_file(rng):
    k = rng.below(8)
    if k == 0:
        return rng.pick(["7", "a b.go", "main/ops_log.go", "12x y", "x 12 y.go", "0", "日.go", "12 "])
    f = rand_text(rng, FILE_ALPHA, rng.range(1, 20))
    return f


def gen_entry(rng, others, indomain):
    """a dict in the harness's format; `indomain` steers towards the domain of the theorems (the
    Lean side decides membership)."""
    sev = rng.pick([1, 2, 3, 4])
    if rng.chance(1, 3):
        t = rng.pick(EDGE_TIMES)
    else:
        t = rng.range(ns_of(2000, 1, 1), ns_of(2069, 1, 1) - 1)
    gid = rng.pick([0, 0, 1, 7, rng.below(1000), rng.below(10 ** 9), INT64, rng.range(0, INT64)])
    line = rng.pick([0, 1, rng.below(10000), 2 ** 31 - 1, 2 ** 31, INT64, rng.range(0, INT64)])
    f = gen_file(rng)
    m = gen_msg(rng, others)
    kind = "in"
    if not indomain:
        k = rng.below(12)
        kind = "out-%d" % k
        if k == 0:
            sev = rng.pick([0, 5, 6, -1, 100])
        elif k == 1:
            t = rng.pick(OUT_TIMES)
        elif k == 2:
            gid = -rng.range(1, 1000)
        elif k == 3:
            line = -rng.range(1, 1000)
        elif k == 4:
            f, gid = rng.pick(["123 x.go", "7 a", "00 b.go:"]), 0
        elif k == 5:
            f = ""
        elif k == 6:
            f = rng.pick(["a:b.go", ":", "x.go:12"])
        elif k == 7:
            m = rng.pick([" ", "  x", "x  ", "\tx\t", " x", "x "])
        elif k == 8:
            m = "first line\n" + rng.pick(HEADERISH) + " tail"
        elif k == 9:
            m = "ends with newline\n"
        elif k == 10:
            f = "a\nb.go"
        else:
            m = "two\n\nI200101 00:00:00.000000 9 in.go:5  embedded entry\nrest"
    return {"Sev": sev, "Time": t, "Gor": gid, "File": hx(f), "Line": line, "Msg": hx(m)}, kind


def etoken(sev, bd, gid, fhex, line, mhex):
    return ",".join([str(sev)] + [str(x) for x in bd] + [str(gid), "x" + fhex, str(line), "x" + mhex])


def etokens(ents, bds):
    return ";".join(etoken(e["Sev"], bd, e["Gor"], e["File"], e["Line"], e["Msg"]) for e, bd in zip(ents, bds)) or "-"


def dec_tokens(ents):
    return ";".join(etoken(e["Sev"], e["BD"], e["Gor"], e["File"], e["Line"], e["Msg"]) for e in ents) or "-"


def gen_garbage(rng, fmts):
    """text for the decoder made of damaged formatted entries and header-like lines (< 4 KiB, so
    that the scanner's first buffer holds all of it)."""
    parts = []
    for _ in range(rng.range(1, 6)):
        k = rng.below(14)
        base = rng.pick(fmts) if fmts else "I200101 00:00:00.000000 5 f.go:1  m\n"
        if k == 0:
            parts.append(base)
        elif k == 1:    # separator other than '.'
            parts.append(base[:16] + rng.pick([",", "x", ":", "é", " "]) + base[17:])
        elif k == 2:    # field out of range
            parts.append(base[0] + rng.pick(["201301", "200230", "200431", "210229", "000000", "690101", "681231", "200100"]) + base[7:])
        elif k == 3:
            parts.append(base[:8] + rng.pick(["24:00:00", "23:60:00", "23:59:60", "00:00:00"]) + base[16:])
        elif k == 4:    # no colon on this line: the file group runs on into the next line
            parts.append(base[:24] + "no colon here\n")
        elif k == 5:    # number overflow
            parts.append(base[:24] + rng.pick(["99999999999999999999 f.go:1  big gid\n", "f.go:99999999999999999999  big line\n",
                                                "9223372036854775807 f.go:9223372036854775807  max\n", "9223372036854775808 f.go:1  over\n"]))
        elif k == 6:
            parts.append(rng.pick(["garbage line\n", "\n", "panic: something\n\ngoroutine 1 [running]:\n", "  indented I200101\n", "I\n", "W2001\n"]))
        elif k == 7:    # digits-blank ambiguity
            parts.append(base[:24] + rng.pick(["12 :45  x\n", "12 34 f.go:5  x\n", "12 f:3  x\n", "12  f:3  x\n", "12:3  x\n", " f:3\n", ":3  x\n"]))
        elif k == 8:    # cut somewhere
            parts.append(base[:rng.below(len(base) + 1)])
        elif k == 9:
            parts.append(base.rstrip("\n") + "\n" + rng.pick(HEADERISH) + "\n")
        elif k == 10:
            parts.append(base.rstrip("\n"))    # no newline: the next part continues the line
        elif k == 11:
            parts.append(rng.pick(HEADERISH))
        elif k == 12:
            parts.append(base[0].lower() + base[1:])
        else:
            parts.append(base.rstrip("\n") + " \t \n")
    return "".join(parts)[:4000]


def brief(items, n=2):
    """failing items for an obligation's detail line, without the bulky replay payloads"""
    return json.dumps([{k: v for k, v in it.items() if not k.startswith("replay_") and k not in ("entries", "decoded")}
                       for it in items[:n]])[:1500]


def canon_real(entries, err):
    return dec_tokens(entries) + " " + ("ok" if not err else "err")


def gc_sorted(files):
    return sorted(files, key=lambda f: -f["Stamp"])


def run(tier, seed):
    rep = Report(PROP, tier, seed, "proof")
    rep.assumptions = [
        "Go's time package converts between Unix nanoseconds and broken-down UTC fields and parses the header time (modelled by hand: timeOk; two-digit years 69-99 are 19yy); Go's regexp is modelled by a hand-written leftmost-first parser (matchHdr/findFrom); both tied by K-C16a",
        "bufio.Scanner hands EntryDecoder.split a window of at most 65536 bytes from the current position; the step-wise growth of the buffer is abstracted (texts used against the model for header-less lines stay below the initial 4096 bytes); model texts are code-point lists, the window limit is exercised with ASCII only",
        "file names of one logger carry distinct stamps (theorem names_increasing); GC sorts by stamp with an unstable sort, ties (two processes, same second) are outside the model",
        "the filesystem, os.Remove, the GC daemon's scheduling: the harness waits until the directory has been quiet for 30 ms (polling, 3 s limit)"]
    try:
        build_go()
        build_driver()
    except BuildError as e:
        rep.obligation("build", "K", False, e.output)
        rep.violation("build failed: " + e.what, {"output": e.output[-4000:], "broken": "K-C16 (build)"}, nofail=True)
        return rep.finish("./check C16", "n/a")
    impl, model = Impl(), Model()
    ok, info = standard_proof_step(rep, PROP, thorough=(tier == "thorough"))
    rng = SplitMix(seed)
    quick = tier == "quick"

    # ---- K-C16a / O-C16a: Entry.Format + EntryDecoder vs model --------------------------------
    kdis, ofail, limit_fail = [], [], []
    ngroups = 15000 if quick else 100000
    groups, kinds = [], []
    quoted = ["I200913 12:26:40.123456 7 a/b.go:42  hello"]
    corpus_groups = [
        [{"Sev": 1, "Time": ns_of(2020, 9, 13, 12, 26, 40, 123456789), "Gor": 0, "File": hx("a/b.go"), "Line": 42,
          "Msg": hx("x  I200101 00:00:00.000000 f:1  inner")},
         {"Sev": 4, "Time": ns_of(2068, 12, 31, 23, 59, 59, 999999999), "Gor": INT64, "File": hx("7"), "Line": INT64, "Msg": hx("")}],
        [{"Sev": 2, "Time": ns_of(2000, 1, 1), "Gor": 3, "File": hx("12 x.go"), "Line": 0, "Msg": hx("W200101 00:00:00.000000 3 12 x.go:0  W")}] * 3]
    for g in corpus_groups:
        groups.append(g)
        kinds.append(["in"] * len(g))
    for _ in range(ngroups):
        n = rng.pick([1, 1, 2, 3, rng.range(2, 9)])
        allin = rng.chance(2, 3)
        g, ks = [], []
        for _ in range(n):
            e, k = gen_entry(rng, quoted, allin or rng.chance(1, 2))
            g.append(e)
            ks.append(k)
        groups.append(g)
        kinds.append(ks)
    all_fmts = []
    n_in = n_out = n_fmt_agree = n_fmt_diff = 0
    BATCH = 150
    for i in range(0, len(groups), BATCH):
        chunk = groups[i:i + BATCH]
        # every third batch runs as if the process lived in another time zone: the format is UTC whatever the zone
        zone = [0, 5 * 3600, -(9 * 3600 + 1800)][(i // BATCH) % 3]
        rep.count("roundtrip-batches: process zone %s" % ("UTC" if zone == 0 else "UTC%+.1fh" % (zone / 3600)))
        r = impl.call("logRoundtrip", Groups=chunk, Zone=zone)
        res = r.get("res")
        if res is None:
            kdis.append({"harness": r})
            break
        q_rt, q_dec, q_fmt, q_or = [], [], [], []
        for g, gr in zip(chunk, res):
            et = etokens(g, gr["BD"])
            real_fmt = "".join(gr["Fmt"])
            q_rt.append("C16 rt %d %s" % (CAP, et))
            q_dec.append("C16 dec %d x%s" % (CAP, real_fmt))
            q_fmt.append("C16 fmt %s" % et)
            q_or.append("C16 oracle-rt %d %s %s %s" % (CAP, et, dec_tokens(gr["Entries"] or []), "ok" if not gr["Err"] else "err"))
        a_rt, a_dec, a_fmt, a_or = ask_all(model, q_rt), ask_all(model, q_dec), ask_all(model, q_fmt), ask_all(model, q_or)
        for j, (g, gr) in enumerate(zip(chunk, res)):
            real = canon_real(gr["Entries"] or [], gr["Err"])
            rep.case(("rt", q_rt[j]))
            for k in kinds[i + j]:
                rep.count("entry-" + k)
            rep.count("group-size-%d" % min(len(g), 4) + ("+" if len(g) >= 4 else ""))
            if a_rt[j] != real or a_dec[j] != real:
                kdis.append({"entries": g, "impl": real, "model_format_then_decode": a_rt[j], "model_decode_of_real_bytes": a_dec[j]})
            if a_fmt[j] == ",".join("x" + f for f in gr["Fmt"]):
                n_fmt_agree += 1
            else:
                n_fmt_diff += 1
            if a_or[j] == "ok":
                n_in += 1
            elif (a_or[j] or "").startswith("skip"):
                n_out += 1
            else:
                ofail.append({"entries": g, "decoded": gr["Entries"], "err": gr["Err"], "oracle": a_or[j], "replay_group": g})
            if len(all_fmts) < 400:
                all_fmts += [unhx(f) for f in gr["Fmt"] if len(f) < 600]
            if gr["Err"]:
                rep.count("decode-error-outcome")
            if len(quoted) < 50 and gr["Fmt"]:
                quoted.append(unhx(gr["Fmt"][0]).rstrip("\n")[:120])
    rep.count("roundtrip-groups-in-domain(oracle applied)", n_in)
    rep.count("roundtrip-groups-outside-domain(K only)", n_out)
    rep.count("format-bytes-agree(informational)", n_fmt_agree)
    rep.count("format-bytes-differ(informational)", n_fmt_diff)
    if groups:
        r0 = impl.call("logRoundtrip", Groups=[groups[0]])["res"][0]
        rep.sample({"entries": [dict(e, File=unhx(e["File"]), Msg=unhx(e["Msg"])) for e in groups[0]],
                    "formatted": [unhx(f) for f in r0["Fmt"]], "decoded_messages": [unhx(e["Msg"]) for e in r0["Entries"]]})

    # decoder on damaged / header-like text
    ntexts = 8000 if quick else 50000
    texts = ["I200101 00:00:00.000000 abc def\nI200101 00:00:00.000000 f:1  real\n", "\nI200101 00:00:00.000000 f:1  x\n",
             "xI200101 00:00:00.000000 f:1  x\n", "I200101 00:00:00,000000 12 f:1  comma\n", "I200101 00:00:00.000000 12 :45  x\n"]
    texts += [gen_garbage(rng, all_fmts) for _ in range(ntexts)]
    for i in range(0, len(texts), 300):
        chunk = texts[i:i + 300]
        r = impl.call("logDecode", Data=[hx(t) for t in chunk])
        res = r.get("res")
        if res is None:
            kdis.append({"harness": r})
            break
        ans = ask_all(model, ["C16 dec %d x%s" % (CAP, hx(t)) for t in chunk])
        for t, gr, a in zip(chunk, res, ans):
            real = canon_real(gr["Entries"] or [], gr["Err"])
            rep.case(("dec", t))
            rep.count("damaged-text" + ("-error" if gr["Err"] else "-%d-entries" % min(len(gr["Entries"] or []), 3)))
            if a != real:
                kdis.append({"text": t, "impl": real, "model": a})
    rep.sample({"damaged_text": texts[5], "model_and_impl_decode": model.ask("C16 dec %d x%s" % (CAP, hx(texts[5])))})

    # the scanner window: entries around 64 KiB, alone and followed by small ones
    def big(n, tag):
        return {"Sev": 1, "Time": ns_of(2020, 9, 13, 12, 26, 40, 123456000), "Gor": 7, "File": hx("a/b.go"), "Line": 42,
                "Msg": hx((tag + "m" * n)[:n])}
    small = {"Sev": 2, "Time": ns_of(2021, 1, 2, 3, 4, 5, 6000), "Gor": 8, "File": hx("c.go"), "Line": 1, "Msg": hx("second")}
    third = dict(small, Msg=hx("third"))
    over = 38    # formatted length - message length for `big`
    sizes = [CAP - over - d for d in ([0, 1, 20, 36, 37, 38, 39, 40, 45, 60, 100, 1000] if quick else
                                      [0, 1, 2, 10, 20, 30, 34, 35, 36, 37, 38, 39, 40, 41, 42, 43, 44, 45, 50, 60, 100, 1000, 30000])]
    sizes += [CAP - over + d for d in ([1, 40, 5000] if quick else [1, 2, 37, 38, 40, 100, 5000, 70000])]
    lgroups = []
    for n in sizes:
        lgroups.append([big(n, "A")])
        lgroups.append([big(n, "B"), small, third])
        if not quick:
            lgroups.append([small, big(n, "C"), big(n, "D"), third])
    for g in lgroups:
        r = impl.call("logRoundtrip", Groups=[g])
        gr = (r.get("res") or [None])[0]
        if gr is None:
            kdis.append({"harness": r})
            continue
        et = etokens(g, gr["BD"])
        real = canon_real(gr["Entries"] or [], gr["Err"])
        a = model.ask("C16 rt %d %s" % (CAP, et))
        o = model.ask("C16 oracle-rt %d %s %s %s" % (CAP, et, dec_tokens(gr["Entries"] or []), "ok" if not gr["Err"] else "err"))
        lens = [len(f) // 2 for f in gr["Fmt"]]
        rep.case(("limit", tuple(lens)))
        rep.count("window-probe-" + ("decoded-back" if o == "ok" else "entry-larger-than-window(outside domain)" if (o or "").startswith("skip")
                                     else "FAILS-entry-ends-near-window-end" if (o or "").startswith("FAIL-LIMIT") else "FAILS"))
        if a != real:
            kdis.append({"formatted_lengths": lens, "impl_messages": [len(e["Msg"]) // 2 for e in gr["Entries"] or []], "model": a[:200]})
        if o != "ok" and not (o or "").startswith("skip"):
            (limit_fail if (o or "").startswith("FAIL-LIMIT") else ofail).append({"replay_group": g, "formatted_lengths": lens, "decoded_message_lengths": [len(e["Msg"]) // 2 for e in gr["Entries"] or []],
                               "decoded_message_tails": [unhx(e["Msg"])[-24:] for e in gr["Entries"] or []], "oracle": o,
                               "entries": [dict(e, Msg="%s… (%d bytes)" % (unhx(e["Msg"])[:8], len(e["Msg"]) // 2)) for e in g]})

    rep.obligation("K-C16a: Entry.Format+EntryDecoder vs model on %d groups, %d damaged texts, %d window probes" % (len(groups), len(texts), len(lgroups)),
                   "K", not kdis, json.dumps(kdis[:2])[:1500])
    rep.obligation("O-C16a: every in-domain sequence of entries (each entry and its successor inside the scanner window) is decoded back to itself (real code)",
                   "O", not ofail, brief(ofail))
    # the failures of this obligation are the recorded finding (known_findings.json); with the entry present the
    # obligation is "…, inputs of the known finding excepted" and the check prints KNOWN-FINDING for them
    window_known = rep.match_known({"fn": "EntryDecoder", "limit": "MaxScanTokenSize"}) is not None
    rep.obligation("O-C16a-window: in-domain sequences whose entries each fit the 64 KiB scanner window are decoded back to themselves (real code)"
                   + (" — inputs matching the known finding (entry ending in the last bytes of the window) excepted" if window_known and limit_fail else ""),
                   "O", not limit_fail or window_known, brief(limit_fail))

    # ---- K-C16b / O-C16b: the real logger, rotation, read back --------------------------------
    rdis, rfail = [], []
    probe = impl.call("logRotate", MaxSize=1 << 30, Ops=[{"K": "log", "Sev": 1, "Msg": hx("probe")}])
    try:
        pf = probe["snaps"][-1]["Files"][0]
        H = sum(e["Size"] for e in pf["Entries"] if not e["User"])
        OV = [e["Size"] for e in pf["Entries"] if e["User"]][0] - 5
    except Exception:
        H, OV = None, None
        rdis.append({"harness": probe})
    nruns = (150 if quick else 1200) if H else 0
    part_agree = part_diff = exact_hits = 0
    run_sample = None
    for runi in range(nruns):
        nmsg = rng.range(1, 14 if quick else 40)
        mode = rng.below(6)
        avg = rng.range(5, 300)
        if mode == 0:
            mx = 1 << 30
        elif mode == 1:
            mx = H + rng.range(1, 4) * (avg + OV)
        elif mode == 2:
            mx = rng.range(1, H)
        elif mode == 3:
            mx = H + OV + avg        # a message of length avg-... lands exactly on the threshold
        elif mode == 4:
            mx = H + rng.range(0, 3)
        else:
            mx = H + rng.range(1, 3000)
        ops, msgs = [], []
        nb = H          # the generator's own idea of sb.nbytes, to aim at the threshold
        for i in range(nmsg):
            k = rng.below(8)
            prefix = "m%d " % i
            if k == 0 and mx < (1 << 20):
                target = mx - nb - OV + rng.pick([-1, 0, 0, 1])          # nbytes + len(entry) == max (+-1)
                if target < len(prefix) + 1:
                    target = mx - H - OV + rng.pick([-1, 0, 0, 1])       # the same for a fresh file
                ln = max(len(prefix) + 1, min(target, 20000))
                body = (prefix + "x" * ln)[:ln]
            else:
                if k == 1:
                    ln = min(3 * mx, 20000) if mx < 1 << 20 else 5000  # well above
                elif k == 2:
                    ln = 0
                else:
                    ln = rng.range(0, 2 * avg)
                body = prefix + (rng.pick(HEADERISH) + " " if rng.chance(1, 5) else "") + rand_text(rng, MSG_ALPHA, ln)
                body = body[:max(ln, len(prefix) - 1)].strip()
            size = OV + len(body.encode("utf-8"))
            if nb + size >= mx:
                nb = H
            nb += size
            msgs.append(body)
            ops.append({"K": "log", "Sev": rng.pick([1, 1, 2, 3]), "Msg": hx(body)})
            if rng.chance(1, 8):
                ops.append({"K": "read"})
            if rng.chance(1, 10):
                # SetSync(true / false): buffered entries must still reach the file at the next flush
                ops.append({"K": "sync", "Sev": rng.pick([1, 1, 0])})
                rep.count("rotation-setsync")
        # the file names carry the user name of the process: a name with periods must still be listed and read back
        uname = rng.pick(["", "", "john.doe", "a.b.c"])
        rep.count("rotation-user-name:" + ("dotted" if uname else "process user"))
        r = impl.call("logRotate", MaxSize=mx, UserName=uname, Ops=ops)
        snaps = r.get("snaps")
        rep.case(("rot", mx, tuple(msgs)))
        rep.count("rotation-mode-%d" % mode)
        if snaps is None:
            rdis.append({"harness": r, "max": mx})
            continue
        for sn in snaps:
            n = sn["After"]
            files = sn["Files"] or []
            idx = {m: i for i, m in enumerate(msgs[:n])}
            per_file, bad = [], sn["Err"] or ""
            for f in files:
                ids = []
                for e in f["Entries"] or []:
                    if e["User"]:
                        ids.append(idx.get(unhx(e["Msg"]), 999999))
                if f.get("Err"):
                    bad = f["Err"]
                per_file.append((f["Stamp"], ids))
            ftok = ";".join("%d:%s" % (st, ",".join(map(str, ids)) or "-") for st, ids in per_file) or "-"
            o = model.ask("C16 oracle-rot %d %s" % (n, ftok))
            fetched = [idx.get(unhx(e["Msg"]), 999999) for e in sn["Fetched"] or []]
            if o != "ok" or bad or fetched != list(range(n)):
                rfail.append({"max": mx, "messages": msgs[:n], "files": per_file, "oracle": o, "error": bad,
                              "FetchEntriesFromFiles": fetched, "replay_rotate": {"MaxSize": mx, "Ops": ops}})
            # model on the same sizes
            hs = set(sum(e["Size"] for e in f["Entries"] or [] if not e["User"]) for f in files)
            sizes_by_id = {}
            for f in files:
                for e in f["Entries"] or []:
                    if e["User"]:
                        sizes_by_id[idx.get(unhx(e["Msg"]), -1)] = e["Size"]
            if len(hs) == 1 and all(i in sizes_by_id for i in range(n)) and n > 0:
                h = hs.pop()
                st0 = per_file[0][0]
                ws = ",".join("%d:%d:%d:%d:%d" % (sizes_by_id[i], st0, h, st0, h) for i in range(n))
                m = model.ask("C16 rot %d %s" % (mx, ws))
                mfiles, mrb = (m.split(" ") + ["", ""])[:2]
                real_rb = ",".join(str(i) for _, ids in per_file for i in ids) or "-"
                if mrb != real_rb:
                    rdis.append({"max": mx, "sizes": ws, "model_readback": mrb, "impl_readback": real_rb})
                mpart = [p.split(":")[1] for p in mfiles.split(";")] if mfiles != "-" else []
                rpart = [",".join(map(str, ids)) or "-" for _, ids in per_file]
                if mpart == rpart:
                    part_agree += 1
                else:
                    part_diff += 1
                # did some write land exactly on the threshold?  (the first message of a later file was
                # tested against the size of the file before it)
                if sn is snaps[-1]:
                    prev = None
                    for p in rpart:
                        ids = [] if p == "-" else [int(x) for x in p.split(",")]
                        nb = h
                        for k_i, i in enumerate(ids):
                            before = prev if (k_i == 0 and prev is not None) else nb
                            if before + sizes_by_id[i] == mx:
                                exact_hits += 1
                            elif before + sizes_by_id[i] in (mx - 1, mx + 1):
                                rep.count("writes-one-byte-off-threshold")
                            nb += sizes_by_id[i]
                        prev = nb
            rep.count("files-per-snapshot-%s" % ("1" if len(files) == 1 else "2-5" if len(files) <= 5 else "6+"))
            if sn.get("FetchedNow", n) < n:
                rep.count("observation: FetchEntriesFromFiles(end=now) misses messages in files stamped ahead of the clock")
            if any(not ids for _, ids in per_file):
                rep.count("file-with-header-only")
            if any(len(ids) > 1 for _, ids in per_file) and len(files) > 1:
                rep.count("rotation-with-several-messages-per-file")
        rep.count("read-backs", len(snaps))
        if run_sample is None and len(snaps[-1]["Files"] or []) > 2:
            run_sample = {"LogFileMaxSize": mx, "header_bytes_per_file": H, "messages": [m[:30] for m in msgs],
                          "files": [[f["Name"], f["Size"], [unhx(e["Msg"])[:12] for e in f["Entries"] if e["User"]]] for f in snaps[-1]["Files"]]}
    if run_sample:
        rep.sample(run_sample)
    rep.count("partition-into-files-agrees-with-model(informational)", part_agree)
    rep.count("partition-into-files-differs(informational)", part_diff)
    rep.count("writes-exactly-at-threshold", exact_hits)
    rep.obligation("K-C16b: real logger (scratch dir, small LogFileMaxSize) vs model: read-back sequence, %d runs" % nruns, "K", not rdis,
                   json.dumps(rdis[:2])[:1500])
    rep.obligation("O-C16b: after Flush every message is read back exactly once, in order, file names increase (real logger)", "O",
                   not rfail, brief(rfail, 1))

    # ---- K-C16c / O-C16c: GC selection ---------------------------------------------------------
    gdis, gfail = [], []
    nd = 100 if quick else 700
    gc_sample = None
    for di in range(nd):
        n = rng.range(1, 9)
        stamps = rng.shuffle([1500000000 + 37 * k + rng.below(30) for k in range(n)])
        files = [{"Stamp": st, "Size": rng.pick([0, rng.below(50), rng.below(5000), rng.below(5000), 100000]), "Pid": rng.pick([1, 4242, 999999])}
                 for st in stamps]
        srt = gc_sorted(files)
        cums, acc = [], 0
        for f in srt:
            acc += f["Size"]
            cums.append(acc)
        bound = rng.pick([0, 1, rng.pick(cums), rng.pick(cums) + 1, max(0, rng.pick(cums) - 1), acc + 1000, rng.below(acc + 2), 1 << 40])
        other = rng.pick([[], ["notes.txt"], ["otherprog.somehost.someuser.2017-07-14T02_40_00Z.000001.log", "vharness.log.tmp"]])
        sz = ",".join(str(f["Size"]) for f in srt)
        m = model.ask("C16 gc %d %s" % (bound, sz))
        kept, r = None, None
        for attempt in range(2):    # the daemon is asynchronous: a disagreement is re-run once before it counts
            r = impl.call("logGC", Bound=bound, Files=files, Other=other)
            if "names" not in r:
                break
            name_of = {f["Stamp"]: nm for f, nm in zip(files, r["names"])}
            left = set(r["left"] or [])
            kept = "".join("t" if name_of[f["Stamp"]] in left else "f" for f in srt)
            if m == kept and all(o in left for o in other):
                break
            rep.count("gc-rerun")
        if kept is None:
            gdis.append({"harness": r})
            continue
        if m != kept or any(o not in left for o in other):
            gdis.append({"bound": bound, "sizes_newest_first": sz, "impl_kept": kept, "model_kept": m, "others_left": [o in left for o in other]})
        o = model.ask("C16 oracle-gc %d %s %s" % (bound, sz, kept))
        if o != "ok":
            gfail.append({"bound": bound, "sizes_newest_first": sz, "kept": kept, "oracle": o,
                          "replay_gc": {"Bound": bound, "Files": files, "Other": other}})
        rep.case(("gc", bound, sz))
        rep.count("gc-kept-%s" % ("all" if "f" not in kept else "newest-only" if kept.count("t") == 1 else "some"))
        if bound in cums:
            rep.count("gc-bound-equals-a-cumulative-size")
        if gc_sample is None and "f" in kept and kept.count("t") > 1:
            gc_sample = {"bound": bound, "sizes_newest_first": sz, "kept": kept}
    if gc_sample:
        rep.sample(gc_sample)
    rep.obligation("K-C16c: GC daemon pass on %d fabricated directories vs gcKeep" % nd, "K", not gdis, json.dumps(gdis[:2])[:1500])
    rep.obligation("O-C16c: newest kept; another file kept iff cumulative size from the newest < bound (real GC)", "O", not gfail,
                   brief(gfail))

    # ---- O-C16e: the same bound for SECONDARY loggers (shakespeare's narrator / spotlight / audit / collector logs) ----
    sfail = []
    for own in (False, True):
        for (mxs, comb, nmsg) in ([(300, 1000, 30)] if quick else [(300, 1000, 30), (300, 0, 12), (2000, 5000, 60)]):
            r = impl.call("logSecondary", MaxSize=mxs, Combined=comb, N=nmsg, OwnDir=own, Main=0 if own else nmsg // 2)
            fs = r.get("files")
            rep.case(("secondary", own, mxs, comb, nmsg))
            rep.count("secondary-logger-gc:" + ("own directory" if own else "main directory"))
            if fs is None:
                sfail.append({"harness": r})
                continue
            # the daemon makes its pass when a file is created: the newest file held little more than its header then and
            # has grown since.  What the pass left must satisfy the selection rule for the newest file as it was — counted
            # here with one byte, the weakest reading — not for its final size
            sz = ",".join(str(f["Size"] if i else min(1, f["Size"])) for i, f in enumerate(fs)) or "0"
            o = model.ask("C16 oracle-gc %d %s %s" % (comb, sz, "t" * max(1, len(fs))))
            if o != "ok" or not fs:
                sfail.append({"secondary logger": "own directory" if own else "main directory", "LogFileMaxSize": mxs, "bound": comb, "messages": nmsg,
                              "files_left": len(fs), "bytes_left": sum(f["Size"] for f in fs), "oracle": o})
            if r.get("foreignInMain"):
                sfail.append({"main logger shares its directory with the secondary logger": True, "messages of the secondary logger read back through the main logger": r["foreignInMain"],
                              "oracle": "FAIL every logger reads back its own entries only"})
    rep.obligation("O-C16e: secondary loggers with GC enabled keep the newest file and otherwise stay below the bound", "O", not sfail, brief(sfail))

    # ---- O-C16f: an entry larger than the logger's write buffer keeps its place ------------------------------------
    bfail = []
    for big in ([300 * 1024] if quick else [300 * 1024, 256 * 1024, 256 * 1024 - 200, 1024 * 1024]):
        r = impl.call("logBig", Big=big)
        pos = r.get("pos")
        rep.case(("big-entry", big))
        rep.count("big-entry runs")
        if not pos or len(pos) != 4 or min(pos) < 0 or pos != sorted(pos):
            bfail.append({"entry_bytes": big, "positions_of_the_four_messages_in_the_files": pos, "harness": None if pos else r,
                          "oracle": "FAIL after a flush the log files hold the messages in the order they were logged (small, small, %d bytes, small)" % big})
    rep.obligation("O-C16f: an entry larger than the write buffer is written behind the entries logged before it (raw bytes of the files)", "O", not bfail, brief(bfail))

    # ---- O-C16d: rotation with the GC daemon running ------------------------------------------------
    dfail = []
    nrg = (25 if quick else 200) if H else 0
    for _ in range(nrg):
        nmsg = rng.range(3, 25)
        mx = H + rng.range(1, 600)
        comb = rng.pick([0, H, 3 * H, 6 * H + 500, 1 << 30])
        msgs = [("g%d %s" % (i, rand_text(rng, MSG_ALPHA, rng.below(200)))).strip() for i in range(nmsg)]
        ops = []
        for m in msgs:
            ops.append({"K": "log", "Sev": 1, "Msg": hx(m)})
            if rng.chance(1, 6):
                ops.append({"K": "read"})
        r = impl.call("logRotate", MaxSize=mx, GC=True, Combined=comb, Ops=ops)
        snaps = r.get("snaps")
        rep.case(("rotgc", mx, comb, tuple(msgs)))
        if snaps is None:
            dfail.append({"harness": r})
            continue
        for sn in snaps:
            n = sn["After"]
            idx = {m: i for i, m in enumerate(msgs[:n])}
            per_file = [(f["Stamp"], [idx.get(unhx(e["Msg"]), 999999) for e in f["Entries"] or [] if e["User"]]) for f in sn["Files"] or []]
            ftok = ";".join("%d:%s" % (st, ",".join(map(str, ids)) or "-") for st, ids in per_file) or "-"
            o = model.ask("C16 oracle-suffix %d %s" % (n, ftok))
            rb = [i for _, ids in per_file for i in ids]
            if o != "ok" or (n > 0 and (not rb or rb[-1] != n - 1)):
                dfail.append({"max": mx, "combined": comb, "files": per_file, "logged": n, "oracle": o,
                              "replay_rotate": {"MaxSize": mx, "GC": True, "Combined": comb, "Ops": ops}})
            rep.count("rotation+gc-readback-%s" % ("complete" if len(rb) == n else "tail"))
    rep.obligation("O-C16d: with the GC daemon running, what is read back is a gap-free tail of what was logged, newest message included (%d runs)" % nrg,
                   "O", not dfail, brief(dfail, 1))

    # ---- decision ---------------------------------------------------------------------------------
    any_o = False
    if limit_fail:
        any_o = True
        f = limit_fail[0]
        rep.violation("EntryDecoder loses or garbles entries when a formatted entry ends within the last bytes of the 64 KiB scanner window: "
                      "formatted lengths %s decode to messages of lengths %s" % (f["formatted_lengths"], f["decoded_message_lengths"]),
                      {"failing": limit_fail[:6], "call": "Entry.Format on each entry, concatenate, NewEntryDecoder(...).Decode until EOF"},
                      tags={"fn": "EntryDecoder", "limit": "MaxScanTokenSize"})
    if ofail:
        any_o = True
        rep.violation("a formatted entry sequence is not decoded back to itself", {"failing": ofail[:5]}, tags={"fn": "EntryDecoder", "limit": "none"})
    if rfail:
        any_o = True
        rep.violation("messages logged through the real logger are not read back exactly once and in order", {"failing": rfail[:3]},
                      tags={"fn": "rotation"})
    if gfail:
        any_o = True
        rep.violation("GC kept/removed the wrong files", {"failing": gfail[:5]}, tags={"fn": "gcOldFiles"})
    if sfail:
        any_o = True
        rep.violation("a secondary logger with GC enabled is not garbage collected: %s" % json.dumps(sfail[0])[:300], {"failing": sfail[:3]}, tags={"fn": "gcOldFiles", "logger": "secondary"})
    if bfail:
        any_o = True
        rep.violation("an entry larger than the write buffer is out of place in the log file: %s" % json.dumps(bfail[0])[:300], {"failing": bfail[:3]},
                      tags={"fn": "syncBuffer.Write", "kind": "big-entry-order"})
    if dfail:
        any_o = True
        rep.violation("with GC running the read-back is not a gap-free tail including the newest message", {"failing": dfail[:3]},
                      tags={"fn": "rotation+gc"})
    if not any_o:
        if not ok:
            rep.violation("proof obligations of C16 no longer check", {"broken_theorems": info["failed"], "lean_output": info["output"][-3000:]}, nofail=True)
        elif kdis or rdis or gdis:
            rep.violation("correspondence K-C16 disagrees", {"broken": "K-C16a/b/c", "disagreements": (kdis + rdis + gdis)[:6]}, nofail=True)
    impl.close()
    model.close()
    return rep.finish("cd lean && lake build ShkModel.Props.C16 && #print axioms",
                      "entry groups: boundary years 2000/2068, leap days, zero and maximal goroutine ids and line numbers, header-like and quoted-entry messages, "
                      "out-of-domain variants (K only); damaged header-like texts; entries around the 64 KiB scanner window; logger runs with LogFileMaxSize "
                      "below / at / above header and message sizes with intermediate read-backs; GC directories with bounds at and around cumulative sizes. "
                      "distinct = distinct generated inputs")


def replay(path):
    """re-run the failing inputs of a replay file on the current code; exit 1 while they still fail."""
    d = json.load(open(path))
    build_go()
    build_driver()
    impl, model = Impl(), Model()
    bad = 0
    items = d.get("replay", {}).get("failing", [])
    for it in items:
        if "replay_group" in it:
            g = it["replay_group"]
            gr = impl.call("logRoundtrip", Groups=[g])["res"][0]
            o = model.ask("C16 oracle-rt %d %s %s %s" % (CAP, etokens(g, gr["BD"]), dec_tokens(gr["Entries"] or []), "ok" if not gr["Err"] else "err"))
            print("roundtrip of %d entries (formatted lengths %s): %s" % (len(g), [len(f) // 2 for f in gr["Fmt"]], o))
            bad += o != "ok" and not o.startswith("skip")
        elif "replay_rotate" in it:
            a = it["replay_rotate"]
            r = impl.call("logRotate", **a)
            msgs = [unhx(o["Msg"]) for o in a["Ops"] if o["K"] == "log"]
            sn = r["snaps"][-1]
            rb = [unhx(e["Msg"]) for f in sn["Files"] or [] for e in f["Entries"] or [] if e["User"]]
            good = rb == msgs if not a.get("GC") else (rb == msgs[len(msgs) - len(rb):] and rb[-1:] == msgs[-1:])
            print("rotation run, max %d, %d messages: %s" % (a["MaxSize"], len(msgs), "ok" if good else "FAIL read back %r" % rb))
            bad += not good
        elif "replay_gc" in it:
            a = it["replay_gc"]
            r = impl.call("logGC", **a)
            srt = gc_sorted(a["Files"])
            name_of = {f["Stamp"]: nm for f, nm in zip(a["Files"], r["names"])}
            kept = "".join("t" if name_of[f["Stamp"]] in set(r["left"] or []) else "f" for f in srt)
            o = model.ask("C16 oracle-gc %d %s %s" % (a["Bound"], ",".join(str(f["Size"]) for f in srt), kept))
            print("gc bound %d kept %s: %s" % (a["Bound"], kept, o))
            bad += o != "ok"
    impl.close()
    model.close()
    if not items:
        print("nothing to replay in", path)
    if bad:
        print("VIOLATION property=%s replay=%s" % (PROP, path))
    return 1 if bad else 0
