"""C20 — parameters and includes expand exactly where and how the manual says.

Claim level: PARTIAL.  Proved (lean/ShkModel/Props/C20.lean): HOW a text is substituted
(`preprocReplace` = the unique left-to-right decomposition into copied bytes and `~name~`
occurrences; values are not scanned again; the undefined names reported are exactly the undefined
occurrences in order), how the parameter table is built (-D first, defaults only when absent,
first definition wins) and which file an include uses (first existing candidate: directory of
the including file, -I directories in order, `.`; depth limit ten).  WHICH fields of which clause
pass through the substitution is decided by the regexp-driven clause parsers, which are not
modelled (nor is govaluate): that part is established by the correspondence below only.

K-C20a  preprocReplace (hook `preprocHex`) vs the model on random byte strings and tables;
O-C20a  the Lean specification (`oracle-preproc`: walk of the input) on the real results.
K/O-C20b generated configurations with `~p~` in EVERY kind of field — substituted ones (title,
        attention, role names, extends, `every <role>`, multiplicity, `with`, expressions,
        include names, repeat count and duration) and verbatim ones (commands, author, signal
        names and patterns, action names, actor and audience names, labels, moods) — x -D /
        default combinations x values (plain, containing `~`, containing `~q~` with q defined or
        not, invalid for the field): the printed configuration (`Printed`) is compared line by
        line with the expectation built from the model's table and substitution; a clause
        expected to fail must fail at its own line, with exactly the model's undefined names.
K/O-C20c include graphs (chains, diamonds, cycles, files found only through -I, files shadowed
        by a sibling of the including file, parameters in names): the order of the printed
        titles against the reader model (K) and against the documented lookup rule evaluated
        directly on the scratch tree (O)."""
import hashlib
import json
import os
import re
import shutil

from .common import *
from .cfgread import *

PROP = "C20"

# ---------------------------------------------------------------------------------------------
# K/O-C20a: the substitution function
# ---------------------------------------------------------------------------------------------
ALPHA = [b"~", b"~", b"~", b"a", b"b", b"ab", b"_", b"9", b" ", b".", b"-", b"\xc3\xa9", b"\n", b"~~", b"~a~", b"~b~", b"~c~", b"~ab~", b"~A_9~", b"\xff", b"\x00"]
NAMES = [b"a", b"b", b"ab", b"A_9", b"c", b"_"]
VALUES = [b"", b"1", b"x y", b"~", b"~a~", b"~b~", b"~c~", b"a~", b"~~a~~", b"\xff", b"~a", b"va~b~lue"]


def gen_pre(rng):
    tbl = []
    for n in rng.shuffle(NAMES)[:rng.below(5)]:
        tbl.append((n, rng.pick(VALUES)))
    s = b"".join(rng.pick(ALPHA) for _ in range(rng.below(12)))
    return tbl, s


def check_preproc(rep, impl, model, rng, n):
    kdis, ofail = [], []
    cases = [gen_pre(rng) for _ in range(n)]
    cases += [([(b"a", b"~b~"), (b"b", b"B")], b"~a~"), ([], b"~x~ ~y~ ~x~"), ([(b"a", b"1")], b"~~a~"), ([(b"a", b"1")], b"~a~a~"), ([], b"")]
    ml = model.ask_many(["C20 preproc %s %s" % (table_token(t), hx(s)) for t, s in cases])
    reals = []
    for (t, s), m in zip(cases, ml):
        r = impl.call("preprocHex", Vars={k.hex(): v.hex() for k, v in t}, S=s.hex())
        if "res" not in r:
            # panic, stack overflow (the process died) or no answer within the time limit
            ofail.append({"what": "preprocReplace(%r) with %r crashed or hung: %s" % (s, t, r.get("panic") or ("hung" if r.get("Hung") else "process died")),
                          "tags": {"kind": "preproc-crash"},
                          "case": {"table": [(k.decode("latin-1"), v.decode("latin-1")) for k, v in t], "s": s.decode("latin-1")}})
            reals.append(None)
            continue
        res = bytes.fromhex(r["res"])
        names = re.findall(rb"undefined parameter: ~(\w+)~", bytes.fromhex(r["errHex"]))
        reals.append((res, names))
        rep.case(("pre", table_token(t), s.hex()), b"~" in s)
        rep.count("preproc:" + ("with-undefined" if names else ("substituted" if res != s else "unchanged")))
        got = "%s %s" % (hx(res), ";".join(hx(x) for x in names) or "-")
        if got != m:
            kdis.append({"table": [(k.decode("latin-1"), v.decode("latin-1")) for k, v in t], "s": s.decode("latin-1"), "real": got, "model": m})
    done = [(c, rr) for c, rr in zip(cases, reals) if rr is not None]
    cases, reals = [c for c, _ in done], [rr for _, rr in done]
    ol = model.ask_many(["C20 oracle-preproc %s %s %s %s" % (table_token(t), hx(s), hx(res), ";".join(hx(x) for x in names) or "-")
                         for (t, s), (res, names) in zip(cases, reals)])
    for (t, s), (res, names), o in zip(cases, reals, ol):
        if o != "ok":
            ofail.append({"what": "preprocReplace(%r) = %r with %r: %s" % (s, res, t, o), "tags": {"kind": "preproc"},
                          "case": {"table": [(k.decode("latin-1"), v.decode("latin-1")) for k, v in t], "s": s.decode("latin-1")}})
    return kdis, ofail


# ---------------------------------------------------------------------------------------------
# K/O-C20b: fields
# ---------------------------------------------------------------------------------------------
IDENT_RE = re.compile(rb"^[A-Za-z_$+<=>^`|~][A-Za-z0-9_$+<=>^`|~]*$")
INT_RE = re.compile(rb"^[+-]?[0-9]+$")
DURS_OK = {b"7s": b"7s", b"90s": b"1m30s", b"100ms": b"100ms"}
EXPR_OK = {b"5", b"(2+3)", b"~3"}

PALETTE = {
    b"rn": [b"doc", b"doc", b"a~b", b"~q~", b"9x", b"", b"x y"],
    b"txt": [b"hello", b"a ~ b", b"~q~", b"~~", b"x~rn~y", b"", b"~nd~"],
    b"num": [b"2", b"1", b"3", b"0", b"~q~", b"x", b""],
    b"cnt": [b"4", b"4", b"~q~", b"x"],
    b"dur": [b"7s", b"90s", b"100ms", b"~q~", b"abc"],
    b"ex": [b"5", b"(2+3)", b"~3", b"~q~", b"5 +", b""],
    b"env": [b"A=1", b"B=~q~", b"", b"C=~rn~"],
    b"fn": [b"inc1", b"inc1", b"sub/inc2", b"~q~", b"nofile"],
    b"q": [b"QQ", b"doc", b"5"],
}


def S(raw):
    """a slot that goes through preprocReplace"""
    return ("S", raw)


def V(raw):
    """a slot that stays verbatim"""
    return ("V", raw)


VALID = {
    b"rn": [b"doc", b"doc", b"a~b", b"~q~"],
    b"txt": [b"hello", b"a ~ b", b"~q~", b"~~", b"x~rn~y", b"", b"~nd~"],
    b"num": [b"2", b"1", b"3", b"0"],
    b"cnt": [b"4", b"12"],
    b"dur": [b"7s", b"90s", b"100ms"],
    b"ex": [b"5", b"(2+3)", b"~3"],
    b"env": [b"A=1", b"B=~q~", b"", b"C=~rn~"],
    b"fn": [b"inc1", b"sub/inc2"],
    b"q": [b"QQ", b"doc", b"5"],
}


def ref(rng, p, lit, free=False, calm=False, force=False):
    """text of a slot: the literal, a reference to parameter p, or (free text) a mix"""
    if force:
        return b"~" + p + b"~"
    k = rng.below((5 if calm else 6) if free else 4)
    if k == 0:
        return lit
    if k < 4:
        return b"~" + p + b"~"
    if k == 4:
        return b"pre ~" + p + b"~ post~" + p + b"~"
    return b"~" + p + b"~ and ~nd~"


def gen_scenario(rng):
    """returns dict(files, defines, items=[(file, line, kind, slots, src)] in reading order, ipath)"""
    calm = rng.chance(3, 5)       # calm: every parameter defined with a value its fields accept
    vals = {p: rng.pick(VALID[p] if (calm or rng.chance(3, 4)) else PALETTE[p]) for p in PALETTE}
    # a role name other than the literal one only works when every role-name field refers to the parameter
    force_rn = calm and vals[b"rn"] != b"doc"
    ways = ["D", "D", "default", "default", "both", "twiceD", "twiceDefault"] + ([] if calm else ["late", "none"])
    # how each parameter gets its value: -D, default, both (conflicting), twice, late, or not at all
    defines, top, late = [], [], []
    for p in rng.shuffle(list(PALETTE)):
        how = rng.pick(ways if (p != b"q" or calm) else ["D", "default", "none", "none"])
        other = rng.pick(PALETTE[p]) or b"other"
        v = vals[p]
        if v == b"" and how in ("default", "twiceDefault", "late"):
            how = "D"       # `parameter p defaults to` needs a value; the empty one can only come from -D
        if how == "D":
            defines.append(p + b"=" + v)
        elif how == "default":
            top.append((p, v))
        elif how == "both":
            defines.append(p + b"=" + v)
            top.append((p, other))
        elif how == "twiceD":
            defines += [p + b"=" + v, p + b"=" + other]
        elif how == "twiceDefault":
            top += [(p, v), (p, other)]
        elif how == "late":
            late.append((p, v))
    if rng.chance(1, 6) and not calm:
        defines.insert(0, b"txt")       # -Dtxt without '=': empty value (first, so it wins)
    rn_lit = b"doc"
    L = []          # (kind, slots, src)

    def add(kind, src, **slots):
        L.append((kind, slots, src))

    for p, v in top:
        add("param", b"parameter " + p + b" defaults to " + v, name=V(p), val=V(v))
    t = ref(rng, b"txt", b"plain title", free=True, calm=calm)
    add("title", b"title " + t, t=S(t))
    t = ref(rng, rng.pick([b"txt", b"rn", b"q"]), b"see also", free=True, calm=calm)
    add("attention", b"attention " + t, t=S(t))
    add("author", b"author me ~txt~ ~nd~", t=V(b"me ~txt~ ~nd~"))
    rn = ref(rng, b"rn", rn_lit, force=force_rn)
    add("role", b"role " + rn, rn=S(rn), ext=S(b""))
    add("cleanup", b"  cleanup echo ~txt~ ~nd~", c=V(b"echo ~txt~ ~nd~"))
    add("spotlight", b"  spotlight tail -F ~nd~", c=V(b"tail -F ~nd~"))
    add("signal", b"  signal ~txt~ event at (?P<ts_now>)(?P<event>a~nd~b)", sn=V(b"~txt~"), re=V(b"(?P<ts_now>)(?P<event>a~nd~b)"))
    add("action", b"  :~nd~ echo ~txt~", an=V(b"~nd~"), c=V(b"echo ~txt~"))
    add("end", b"end")
    if rng.chance(1, 2):
        x = ref(rng, b"rn", rn_lit, force=force_rn)
        add("role", b"role ext extends " + x, rn=S(b"ext"), ext=S(x))
        add("end", b"end")
    add("open", b"cast")
    rn2 = ref(rng, b"rn", rn_lit, force=force_rn)
    env = ref(rng, b"env", b"A=0", free=True, calm=calm)
    if rng.chance(2, 3):
        add("actor", b"  ~nd~ plays " + rn2 + b" with " + env, an=V(b"~nd~"), rn=S(rn2), mul=S(b""), env=S(env), star=V(b""))
    else:
        add("actor", b"  ~nd~ plays " + rn2, an=V(b"~nd~"), rn=S(rn2), mul=S(b""), env=S(b""), star=V(b""))
    if rng.chance(2, 3):
        mul = ref(rng, b"num", b"2")
        rn3 = ref(rng, b"rn", rn_lit, force=force_rn)
        add("actor", b"  b* play " + mul + b" " + rn3, an=V(b"b"), rn=S(rn3), mul=S(mul), env=S(b""), star=V(b"*"))
    add("end", b"end")
    add("open", b"script")
    add("tempo", b"  tempo 100ms")
    rn4 = ref(rng, b"rn", rn_lit, force=force_rn)
    add("entails", b"  scene a entails for every " + rn4 + b": ~nd~", rn=S(rn4), act=V(b"~nd~"))
    add("mood", b"  scene a mood starts ~nd~", m=V(b"~nd~"))
    add("storyline", b"  storyline a")
    add("repeatfrom", b"  repeat from a")
    c = ref(rng, b"cnt", b"3")
    add("repcount", b"  repeat " + c + b" times", c=S(c))
    d = ref(rng, b"dur", b"7s")
    add("reptime", b"  repeat time " + d, d=S(d))
    add("end", b"end")
    add("open", b"audience")
    rn5 = ref(rng, b"rn", rn_lit, force=force_rn)
    add("watch", b"  w watches every " + rn5 + b" ~txt~", an=V(b"w"), rn=S(rn5), sn=V(b"~txt~"))
    add("measures", b"  w measures label ~nd~ ~txt~", l=V(b"label ~nd~ ~txt~"))
    for kind, pre, head in (("auditwhile", b"1 < ", b"  ~q~ audits only while "), ("computes", b"1 + ", b"  ~q~ computes v as "),
                            ("collects", b"3 - ", b"  ~q~ collects c as last 3 "), ("expects", b"2 < ", b"  ~q~ expects always: ")):
        e = pre + ref(rng, b"ex", b"5")
        add(kind, head + e, e=S(e), an=V(b"~q~"))
    add("end", b"end")
    incfile = None
    if rng.chance(1, 2):
        f = ref(rng, b"fn", b"inc1") + b".cfg"
        add("include", b"include " + f, f=S(f))
    for p, v in late:
        add("param", b"parameter " + p + b" defaults to " + v, name=V(p), val=V(v))
    t = b"late ~" + rng.pick(list(PALETTE) + ([] if calm else [b"nd"])) + b"~"
    add("title", b"title " + t, t=S(t))
    # optionally move a block of whole top-level elements into an included file
    files = {"inc1.cfg": b"title in-inc1 ~txt~\n", "sub/inc2.cfg": b"title in-inc2 ~q~\n"}
    items = []
    main_lines = []
    for i, (kind, slots, src) in enumerate(L):
        main_lines.append(src)
        items.append(["main.cfg", len(main_lines), kind, slots, src])
    files["main.cfg"] = b"\n".join(main_lines) + b"\n"
    return {"files": files, "defines": defines, "items": items, "vals": vals, "ipath": []}


def subst_all(model, queries):
    """queries: list of (table, text) -> list of (result, undefined names)"""
    out = model.ask_many(["C20 preproc %s %s" % (table_token(t), hx(s)) for t, s in queries])
    res = []
    for o in out:
        r, u = o.split(" ")
        res.append((unhx(r), [] if u == "-" else [unhx(x) for x in u.split(";")]))
    return res


def expect_scenario(model, sc):
    """the expectation: ('ok', sorted printed lines) | ('undef', file, line, names) | ('invalid', file, line) | ('abort',)"""
    defines = sc["defines"]
    items = sc["items"]
    # tables: one per prefix of the `parameter` clauses read so far (model: fromDefines / withDefaults)
    defaults, tabs, tab_of = [], {}, []
    for it in items:
        key = len(defaults)
        tab_of.append(key)
        if key not in tabs:
            tabs[key] = list(defaults)
        if it[2] == "param":
            defaults.append((it[3]["name"][1], it[3]["val"][1]))
    keys = sorted(tabs)
    tl = model.ask_many(["C20 table %s %s" % (",".join(hx(d) for d in defines) or "-", table_token(tabs[k])) for k in keys])
    table = {k: parse_table(t) for k, t in zip(keys, tl)}
    # substitute every S slot with the table in force at its clause
    qs, where = [], []
    for i, it in enumerate(items):
        for name, (mode, raw) in sorted(it[3].items()):
            if mode == "S":
                qs.append((table[tab_of[i]], raw))
                where.append((i, name))
    sub = {}
    for (i, name), r in zip(where, subst_all(model, qs)):
        sub[(i, name)] = r
    # included files are read where the directive stands
    lines = []
    roles, actors, errs = {}, [], None
    role_cur = None
    out = {"title": [], "attention": [], "author": []}
    printed = []

    class Fail(Exception):
        pass

    def use(i, name):
        val, und = sub[(i, name)]
        if und:
            raise Fail(("undef", items[i][0], items[i][1], und))
        return val

    def invalid(i):
        raise Fail(("invalid", items[i][0], items[i][1]))

    def find_role(i, name):
        rn = use(i, name)
        if not IDENT_RE.match(rn):
            invalid(i)
        return rn

    try:
        for i, (f, ln, kind, slots, src) in enumerate(items):
            # (free texts are trimmed once more after the substitution: cb3d2e8)
            if kind == "title":
                t = use(i, "t").strip()
                if t.strip():           # a title / attention text that is empty after substitution is not printed (a71da88^: 3fb4b9d)
                    printed.append(b"title " + t)
            elif kind == "attention":
                t = use(i, "t").strip()
                if t.strip():
                    printed.append(b"attention " + t)
            elif kind == "author":
                printed.append(b"author " + slots["t"][1])
            elif kind == "role":
                rn = find_role(i, "rn")
                ext = use(i, "ext")
                if rn in roles:
                    raise Fail(("abort",))
                if ext:
                    if ext not in roles:
                        raise Fail(("abort",))
                    roles[rn] = list(roles[ext])
                else:
                    roles[rn] = []
                role_cur = rn
            elif kind in ("cleanup", "spotlight"):
                roles[role_cur].append((0 if kind == "cleanup" else 1, b"  " + kind.encode() + b" " + slots["c"][1]))
            elif kind == "signal":
                roles[role_cur].append((2, b"  signal " + slots["sn"][1] + b" event at " + slots["re"][1]))
            elif kind == "action":
                roles[role_cur].append((3, b"  :" + slots["an"][1] + b" " + slots["c"][1]))
            elif kind == "actor":
                rn = find_role(i, "rn")
                mul = use(i, "mul")
                if rn not in roles:
                    if not (mul and rn.endswith(b"s") and rn[:-1] in roles):
                        invalid(i)
                    rn = rn[:-1]
                env = use(i, "env").strip()
                star = slots["star"][1]
                an = slots["an"][1]
                if mul == b"":
                    if star:
                        invalid(i)
                    names = [(an, env)]
                else:
                    if not INT_RE.match(mul):
                        invalid(i)
                    names = [(an + str(k + 1).encode(), (b"i=%d" % k) + (b"; " + env if env else b"")) for k in range(int(mul))]
                for a, e in names:
                    if any(a == x[0] for x in actors):
                        invalid(i)
                    actors.append((a, rn, e))
            elif kind == "entails":
                rn = find_role(i, "rn")
                if rn not in roles:
                    invalid(i)
                for a, r, e in actors:
                    if r == rn:
                        printed.append(b"  scene a entails for " + a + b": " + slots["act"][1])
            elif kind == "mood":
                printed.append(b"  scene a mood starts " + slots["m"][1])
            elif kind == "repcount":
                c = use(i, "c")
                if not INT_RE.match(c):
                    invalid(i)
                printed.append(b"  repeat %d times" % int(c))
            elif kind == "reptime":
                d = use(i, "d")
                if d not in DURS_OK:
                    invalid(i)
                printed.append(b"  repeat time " + DURS_OK[d])
            elif kind == "watch":
                rn = find_role(i, "rn")
                if rn not in roles:
                    invalid(i)
                for a, r, e in actors:
                    if r == rn:
                        printed.append(b"  w watches " + a + b" " + slots["sn"][1])
            elif kind == "measures":
                printed.append(b"  w measures " + slots["l"][1])
            elif kind in ("auditwhile", "computes", "collects", "expects"):
                e = use(i, "e")
                if e[4:] not in EXPR_OK:
                    invalid(i)
                head = {"auditwhile": b"audits only while ", "computes": b"computes v as ", "collects": b"collects c as last 3 ",
                        "expects": b"expects always: "}[kind]
                printed.append(b"  " + slots["an"][1] + b" " + head + e.strip())
            elif kind == "include":
                fn = use(i, "f")
                if fn == b"inc1.cfg":
                    q = subst_all(model, [(table[tab_of[i]], b"in-inc1 ~txt~")])[0]
                    if q[1]:
                        raise Fail(("undef", "inc1.cfg", 1, q[1]))
                    printed.append(b"title " + q[0].strip())
                elif fn == b"sub/inc2.cfg":
                    q = subst_all(model, [(table[tab_of[i]], b"in-inc2 ~q~")])[0]
                    if q[1]:
                        raise Fail(("undef", "sub/inc2.cfg", 1, q[1]))
                    printed.append(b"title " + q[0].strip())
                else:
                    invalid(i)
    except Fail as e:
        return e.args[0]
    for rn, body in roles.items():
        printed.append(b"role " + rn)
        printed += [l for _, l in body]
    for a, r, e in actors:
        printed.append(b"  " + a + b" plays " + r + (b" with " + e if e else b""))
    return ("ok", sorted(printed))


STRUCT = {b"cast", b"end", b"script", b"audience", b"interpretation", b"  tempo 100ms", b"  storyline a", b"  repeat from a",
          b"  # (repeating act 1 and following)", b"  repeat always", b"  repeat time unconstrained"}


def printed_lines(printed):
    res = []
    for l in printed.encode("utf-8").split(b"\n"):
        if l == b"" or l in STRUCT:
            continue
        if l.startswith(b"  foul upon ") or l.startswith(b"  ignore ") or l.endswith(b" audits throughout"):
            continue
        res.append(l)
    return sorted(res)


def check_scenarios(rep, root, impl, model, rng, n):
    kdis = []
    for j in range(n):
        sc = gen_scenario(rng)
        casedir = "s%d" % j
        write_tree(root, {os.path.join(casedir, p): d for p, d in sc["files"].items()})
        r = impl.parse(os.path.join(casedir, "main.cfg"), [], [d.decode() for d in sc["defines"]], slim=False)
        exp = expect_scenario(model, sc)
        desc = {"files": {p: d.decode("latin-1") for p, d in sc["files"].items()}, "defines": [d.decode() for d in sc["defines"]]}
        rep.case(hashlib.sha1(json.dumps(desc, sort_keys=True).encode()).hexdigest())
        rep.count("scenario-expected:" + exp[0])
        for it in sc["items"]:
            for name, (mode, raw) in it[3].items():
                if b"~" in raw:
                    rep.count("field:%s.%s:%s" % (it[2], name, "substituted" if mode == "S" else "verbatim"))
        bad = None
        if r.get("Panicked") or r.get("Hung") or r.get("harnessCrash"):
            bad = "loader crashed: %s" % r.get("Panic")
        elif exp[0] == "ok":
            if not r["Ok"]:
                bad = "expected to load, real says: " + r["Err"][:200]
            else:
                got = printed_lines(r["Printed"])
                if got != exp[1]:
                    only_real = [l.decode("latin-1") for l in got if l not in exp[1]]
                    only_model = [l.decode("latin-1") for l in exp[1] if l not in got]
                    bad = "printed fields differ: only real %s, only expected %s" % (only_real[:4], only_model[:4])
        else:
            if r["Ok"]:
                bad = "expected %s, real loads" % (exp,)
            else:
                d = parse_diag(bytes.fromhex(r["ErrFullHex"]))
                if exp[0] == "abort":
                    if d["positioned"]:
                        bad = "expected an error without position, real: " + r["Err"][:150]
                else:
                    pos = (os.path.join(casedir, exp[1]).encode(), exp[2])
                    names = re.findall(rb"undefined parameter: ~(\w+)~", d.get("msg", b""))
                    if not d["positioned"] or (d["file"], d["line"]) != pos:
                        bad = "expected %s at %s:%d, real: %s" % (exp[0], exp[1], exp[2], r["Err"][:150])
                    elif exp[0] == "undef" and names != exp[3]:
                        bad = "undefined names: expected %s, real %s" % (exp[3], names)
                    elif exp[0] == "invalid" and names:
                        bad = "expected a field error, real reports undefined parameters %s" % names
        if bad:
            kdis.append({"what": bad, "case": desc, "tags": {"kind": "fields"}})
        if j == 0:
            rep.sample({"scenario": desc["files"]["main.cfg"][:600], "defines": desc["defines"], "expected": str(exp)[:300]})
        shutil.rmtree(os.path.join(root, casedir), ignore_errors=True)
    return kdis


# ---------------------------------------------------------------------------------------------
# K/O-C20c: include graphs
# ---------------------------------------------------------------------------------------------
DIRS = ["", "sub", "inc", "inc2", "sub/deep"]


def gen_graph(rng):
    kind = rng.pick(["chain", "diamond", "cycle", "ipath", "shadow", "random", "random", "deep", "wide"])
    files = {}
    ipath = rng.pick([[], ["inc"], ["inc", "inc2"], ["inc2", "inc"]])
    names = [b"a.cfg", b"b.cfg", b"c.cfg", b"d.cfg"]

    def body(path, incs):
        ls = [b"title " + path.encode() + b"#1"]
        for k, n in enumerate(incs):
            ls.append(b"include " + n)
            ls.append(b"title " + path.encode() + (b"#%d" % (k + 2)))
        return b"\n".join(ls) + b"\n"
    if kind == "chain":
        n = rng.range(1, 4)
        files["main.cfg"] = body("main.cfg", [b"sub/a.cfg"])
        chain = ["sub/a.cfg", "sub/b.cfg", "sub/c.cfg", "sub/d.cfg"][:n]
        for i, p in enumerate(chain):
            files[p] = body(p, [names[i + 1]] if i + 1 < n else [])
    elif kind == "diamond":
        files["main.cfg"] = body("main.cfg", [b"a.cfg", b"b.cfg"])
        files["a.cfg"] = body("a.cfg", [b"d.cfg"])
        files["b.cfg"] = body("b.cfg", [b"d.cfg"])
        files["d.cfg"] = body("d.cfg", [])
    elif kind == "cycle":
        files["main.cfg"] = body("main.cfg", [b"a.cfg"])
        files["a.cfg"] = body("a.cfg", [rng.pick([b"b.cfg", b"a.cfg", b"main.cfg"])])
        files["b.cfg"] = body("b.cfg", [rng.pick([b"a.cfg", b"main.cfg"])])
    elif kind == "ipath":
        ipath = rng.pick([["inc"], ["inc", "inc2"], ["inc2", "inc"]])
        files["main.cfg"] = body("main.cfg", [b"only.cfg", b"both.cfg"])
        files["inc/only.cfg"] = body("inc/only.cfg", [b"both.cfg"])
        files["inc/both.cfg"] = body("inc/both.cfg", [])
        files["inc2/both.cfg"] = body("inc2/both.cfg", [])
    elif kind == "shadow":
        ipath = rng.pick([["inc"], ["inc", "inc2"]])
        files["main.cfg"] = body("main.cfg", [b"sub/a.cfg", b"x.cfg"])
        files["sub/a.cfg"] = body("sub/a.cfg", [b"x.cfg"])
        files["sub/x.cfg"] = body("sub/x.cfg", [])
        files["inc/x.cfg"] = body("inc/x.cfg", [])
        if rng.chance(1, 2):
            files["x.cfg"] = body("x.cfg", [])
    elif kind == "wide":
        # many includes side by side, little nesting: the limit is on the nesting depth, not on how many files were read
        n = rng.pick([9, 10, 11, 14, 25])
        files["main.cfg"] = body("main.cfg", [b"w%d.cfg" % (i % 5) for i in range(n)])
        for i in range(5):
            files["w%d.cfg" % i] = body("w%d.cfg" % i, [b"leaf.cfg"] if i == 0 and rng.chance(1, 2) else [])
        files["leaf.cfg"] = body("leaf.cfg", [])
    elif kind == "deep":
        d = rng.pick([8, 9, 10, 11])
        for i in range(d + 1):
            p = "main.cfg" if i == 0 else "l%d.cfg" % i
            files[p] = body(p, [b"l%d.cfg" % (i + 1)] if i < d else [])
    else:
        paths = ["main.cfg"]
        for d in DIRS:
            for n in names:
                if rng.chance(1, 3):
                    paths.append(os.path.join(d, n.decode()))
        for lvl, p in enumerate(paths):
            incs = []
            for _ in range(rng.below(3)):
                n = rng.pick(names)
                if rng.chance(1, 4):
                    n = rng.pick([b"sub/", b"../", b"./", b"deep/"]) + n
                incs.append(n)
            files[p] = body(p, incs)
    return {"files": files, "ipath": ipath, "kind": kind}


def spec_flatten(root, casedir, main, ipath, limit=4000):
    """the documented rule, evaluated on the scratch tree: an include reads the named file in place,
    looked up next to the including file, then in the -I directories in order, then in `.`;
    more than ten nested files are refused.  Returns (titles, error or None)."""
    titles = []

    class Stop(Exception):
        pass

    def read(path, depth):
        with open(os.path.join(root, path), "rb") as f:
            lines = f.read().split(b"\n")
        for l in lines:
            l = l.strip()
            if l.startswith(b"title "):
                titles.append(l[6:].strip())
                if len(titles) > limit:
                    raise Stop("too long")
            elif l.startswith(b"include "):
                if depth >= 10:
                    raise Stop("depth")
                name = l[8:].decode()
                cands = [os.path.dirname(path) or "."] + ipath + (["."] if "." not in ipath else [])
                for c in cands:
                    p = os.path.normpath(os.path.join(c, name))
                    if os.path.isfile(os.path.join(root, p)):
                        read(p, depth + 1)
                        break
                else:
                    raise Stop("notFound")
    try:
        read(main, 1)
    except Stop as e:
        return titles, e.args[0]
    return titles, None


def check_graphs(rep, root, impl, model, rng, n):
    kdis, ofail = [], []
    for j in range(n):
        g = gen_graph(rng)
        casedir = "g%d" % j
        write_tree(root, {os.path.join(casedir, p): d for p, d in g["files"].items()})
        main = os.path.join(casedir, "main.cfg")
        ipath = [os.path.join(casedir, p) for p in g["ipath"]]
        r = impl.parse(main, ipath, [], slim=False)
        desc = {"files": {p: d.decode("latin-1") for p, d in g["files"].items()}, "ipath": g["ipath"], "kind": g["kind"]}
        rep.case(hashlib.sha1(json.dumps(desc, sort_keys=True).encode()).hexdigest())
        rep.count("graph:" + g["kind"])
        if r.get("Panicked") or r.get("Hung") or r.get("harnessCrash"):
            ofail.append({"what": "loader crashed on an include graph: %s" % r.get("Panic"), "tags": {"kind": "panic"}, "case": desc})
            continue
        real_titles = [l[6:] for l in r["Printed"].encode().split(b"\n") if l.startswith(b"title ")] if r["Ok"] else None
        real_cls = None
        if not r["Ok"]:
            d = parse_diag(bytes.fromhex(r["ErrFullHex"]))
            m = d.get("msg", d["head"])
            real_cls = "depth" if m == b"include depth limit exceeded" else ("notFound" if m.endswith(b"file does not exist") else "other")
        # K: the reader model
        m0, clauses, tbl, fs = model_load(model, root, main.encode(), [p.encode() for p in ipath], [])
        model_titles = [c["text"][6:].strip() for c in clauses if c["text"].startswith(b"title ")]
        mk = "ok" if m0["kind"] == "ok" else (m0.get("err") or m0["kind"])
        if r["Ok"]:
            if mk != "ok" or model_titles != real_titles:
                kdis.append({"what": "order of the included text differs from the reader model", "case": desc, "tags": {"kind": "graph"},
                             "real": [t.decode() for t in real_titles][:12], "model": [t.decode() for t in model_titles][:12], "model_outcome": mk})
        elif mk != real_cls:
            kdis.append({"what": "real fails with %s, the reader model with %s" % (real_cls, mk), "case": desc, "tags": {"kind": "graph"}})
        # O: the documented rule on the tree
        titles, err = spec_flatten(root, casedir + "/main.cfg", casedir + "/main.cfg", ipath)
        titles = [t[len(casedir) + 1:] if t.startswith(casedir.encode() + b"/") else t for t in titles]
        rep.count("graph-outcome:" + (err or "ok"))
        if err is None:
            if not r["Ok"] or real_titles != titles:
                ofail.append({"what": "included text is not where the manual says: real %s, documented %s" % (
                    (real_titles or r["Err"][:100]), titles), "tags": {"kind": "include-order", "graph": g["kind"]}, "case": desc})
        elif err in ("depth", "notFound") and real_cls != err:
            ofail.append({"what": "documented outcome %s, real %s" % (err, "loads" if r["Ok"] else r["Err"][:100]),
                          "tags": {"kind": "include-outcome", "graph": g["kind"]}, "case": desc})
        if j == 0:
            rep.sample({"include_graph": desc, "titles_in_reading_order": [t.decode() for t in titles][:10], "outcome": err or "ok"})
        shutil.rmtree(os.path.join(root, casedir), ignore_errors=True)
    return kdis, ofail


def run(tier, seed):
    rep = Report(PROP, tier, seed, "proof")
    quick = tier == "quick"
    rep.assumptions = [
        "PARTIAL: the theorems cover the substitution function, the parameter table and the include lookup; WHICH fields are substituted is decided by the unmodelled regexp-driven clause parsers and is established by K/O-C20b only (generated testing)",
        "govaluate, strconv and time.ParseDuration decide whether a substituted field is acceptable; the expectation uses fixed palettes of values whose validity is known",
        "the table of the `parameter` clauses read so far is computed with the model (fromDefines / withDefaults), the reading order across includes with the reader model of C09"]
    try:
        build_go()
        build_driver()
    except BuildError as e:
        rep.obligation("build", "K", False, e.output)
        rep.violation("build failed: " + e.what, {"output": e.output[-4000:], "broken": "K-C20 (build)"}, nofail=True)
        return rep.finish("./check C20", "n/a")
    ok, info = standard_proof_step(rep, PROP, thorough=not quick)
    rng = SplitMix(seed)
    with Scratch("verif-c20-") as root:
        impl, model = ImplAt(root), Model()
        kpre, opre = check_preproc(rep, impl, model, rng, 4000 if quick else 60000)
        kfields = check_scenarios(rep, root, impl, model, rng, 1200 if quick else 14000)
        kgraph, ograph = check_graphs(rep, root, impl, model, rng, 400 if quick else 5000)
        impl.close()
        model.close()
    rep.obligation("K-C20a: preprocReplace vs model on random strings and tables", "K", not kpre, json.dumps(kpre[:3]))
    rep.obligation("O-C20a: the specification of the substitution on the real results", "O", not opre, json.dumps([f["what"] for f in opre[:3]]))
    rep.obligation("K/O-C20b: printed fields of generated configurations vs the expectation built from the model (every field kind, substituted or verbatim)",
                   "K", not kfields, json.dumps(kfields[:2], default=str)[:1900])
    rep.obligation("K-C20c: order of included text and failure kind vs the reader model", "K", not kgraph, json.dumps(kgraph[:2], default=str)[:1900])
    rep.obligation("O-C20c: included text stands where the documented lookup rule puts it (evaluated on the scratch tree)", "O", not ograph,
                   json.dumps([f["what"] for f in ograph[:3]])[:1900])
    # E-C20: the -D flag of the real binary (the in-process load takes the definitions as a list, not from the command line)
    ecli = []
    import subprocess
    import tempfile
    from . import e2e
    dcli = tempfile.mkdtemp(prefix="verif-c20-cli-")
    try:
        with open(os.path.join(dcli, "play.cfg"), "w") as fcli:
            fcli.write("title ~p~\n")
        for val in ["plain", "one,two", "a=b", "x y", "host1:26257,host2:26257"]:
            prc = subprocess.run([e2e.BIN, "-n", "-p", "-q", "-D", "p=" + val, "play.cfg"], cwd=dcli, capture_output=True, text=True, timeout=30)
            titles = [l[6:] for l in prc.stdout.splitlines() if l.startswith("title ")]
            rep.count("cli-define:" + ("with comma" if "," in val else "plain"))
            if titles != [val]:
                ecli.append({"what": "-D 'p=%s' with `title ~p~` prints %s (the value given with -D must be substituted as it is)" % (val, titles or prc.stderr[-200:]),
                             "case": {"files": {"play.cfg": "title ~p~\n"}, "args": ["-n", "-p", "-q", "-D", "p=" + val, "play.cfg"]},
                             "tags": {"kind": "define-with-comma" if "," in val else "cli-define"}})
        # an `include` given through -s / -r is an include like any other: the -I directories are searched
        os.makedirs(os.path.join(dcli, "inc"))
        base = "role r\n  :a true\nend\ncast\n  x plays r\nend\nscript\n  scene a entails for x: a\nend\naudience\n  bob audits throughout\n  bob expects always: t >= 0\nend\n"
        with open(os.path.join(dcli, "base.cfg"), "w") as fcli:
            fcli.write(base)
        with open(os.path.join(dcli, "inc", "extra.cfg"), "w") as fcli:
            fcli.write("storyline aa\n")
        with open(os.path.join(dcli, "inc", "interp.cfg"), "w") as fcli:
            fcli.write("ignore bob disappointment\n")
        for flag, line, want in (("-s", "include extra.cfg", "storyline aa"), ("-r", "include interp.cfg", "ignore bob disappointment")):
            argv = ["-n", "-p", "-q", "-I", "inc", flag, line, "base.cfg"]
            prc = subprocess.run([e2e.BIN] + argv, cwd=dcli, capture_output=True, text=True, timeout=30)
            rep.count("cli-include through " + flag)
            if prc.returncode != 0 or want not in [l.strip() for l in prc.stdout.splitlines()]:
                ecli.append({"what": "%s '%s' with -I inc: %s (a file found only through -I must be found)" % (flag, line, (prc.stderr or prc.stdout).strip().splitlines()[:2]),
                             "case": {"files": {"base.cfg": base, "inc/extra.cfg": "storyline aa\n", "inc/interp.cfg": "ignore bob disappointment\n"}, "args": argv},
                             "tags": {"kind": "cli-include-search-path"}})
    finally:
        shutil.rmtree(dcli, ignore_errors=True)
    known_cli = [f for f in ecli if rep.match_known(f["tags"]) is not None]
    rep.obligation("E-C20: a value given with -D on the command line of the real binary is substituted as it is%s"
                   % ("; values of the known finding excepted (they fail as recorded)" if known_cli else ""), "O",
                   not [f for f in ecli if rep.match_known(f["tags"]) is None], json.dumps([f["what"] for f in ecli][:3])[:900])
    # a field that is substituted where it must not be (or the reverse) is a violation with the configuration as its input
    groups = {}
    for f in opre + ograph + kfields + ecli:
        groups.setdefault(json.dumps(f["tags"], sort_keys=True), []).append(f)
    unknown = 0
    for key, fs in sorted(groups.items()):
        if rep.violation(fs[0]["what"], {"failing": fs[:5], "count": len(fs)}, tags=fs[0]["tags"]):
            unknown += 1
    if not unknown:
        if not ok:
            rep.violation("proof obligations of C20 no longer check", {"broken_theorems": info["failed"], "lean_output": info["output"][-3000:]}, nofail=True)
        elif kpre or kgraph:
            rep.violation("correspondence K-C20 disagrees", {"broken": "K-C20a/c", "disagreements": (kpre + kgraph)[:10]}, nofail=True)
    return rep.finish("cd lean && lake build ShkModel.Props.C20 && #print axioms",
                      "random byte strings over an alphabet rich in `~` with tables whose values contain occurrences; configurations with a parameter reference in every "
                      "field kind x ways of defining it (-D, default, both, twice, late, not at all) x value palettes (valid, with `~`, with `~q~`, invalid for the field); "
                      "include graphs over five directories and two -I directories; distinct by content hash; non-trivial (strings) = contains `~`")


def replay(path):
    d = json.load(open(path))
    build_go()
    with Scratch("verif-c20-replay-") as root:
        impl = ImplAt(root)
        for f in d["replay"].get("failing", []):
            c = f["case"]
            if "files" not in c:
                print(impl.call("preprocHex", Vars={k.encode("latin-1").hex(): v.encode("latin-1").hex() for k, v in c["table"]}, S=c["s"].encode("latin-1").hex()))
                continue
            write_tree(root, {p: t.encode("latin-1") for p, t in c["files"].items()})
            r = impl.parse("main.cfg", c.get("ipath", []), c.get("defines", []), slim=False)
            print(json.dumps({k: r.get(k) for k in ("Ok", "Err", "Panicked", "Panic")}))
            print(r.get("Printed", ""))
        impl.close()
    return 0
