"""Shared machinery of the /verif checks: builds, line-protocol clients, evidence,
known findings, violation reporting.  See DESIGN.md sections 2 and 3."""
import json
import os
import re
import shutil
import subprocess
import sys
import tempfile
import time

VERIF = os.path.dirname(os.path.dirname(os.path.abspath(__file__)))
REPO = os.environ.get("VERIF_REPO", "/repo")
LEAN = os.path.join(VERIF, "lean")
HARNESS = os.path.join(VERIF, "harness")
BUILD = os.path.join(VERIF, ".build")
EVID = os.path.join(VERIF, "evidence")
REPLAYS = os.path.join(EVID, "replays")

GOENV = dict(os.environ, GOFLAGS="-mod=mod", GOPROXY="off", GOSUMDB="off",
             GOTOOLCHAIN="local", CGO_ENABLED=os.environ.get("CGO_ENABLED", "1"))

ALLOWED_AXIOMS = {"propext", "Quot.sound", "Classical.choice"}
FORBIDDEN_RE = re.compile(
    r"\bsorry\b|\badmit\b|^axiom |native_decide|bv_decide|implemented_by|\bunsafe |maxHeartbeats 0", re.M)


class SplitMix:
    """splitmix64: the single PRNG every random choice derives from."""

    def __init__(self, seed):
        self.s = seed & 0xFFFFFFFFFFFFFFFF

    def next(self):
        self.s = (self.s + 0x9E3779B97F4A7C15) & 0xFFFFFFFFFFFFFFFF
        z = self.s
        z = ((z ^ (z >> 30)) * 0xBF58476D1CE4E5B9) & 0xFFFFFFFFFFFFFFFF
        z = ((z ^ (z >> 27)) * 0x94D049BB133111EB) & 0xFFFFFFFFFFFFFFFF
        return z ^ (z >> 31)

    def below(self, n):
        return self.next() % n if n > 0 else 0

    def range(self, lo, hi):
        return lo + self.below(hi - lo + 1)

    def chance(self, num, den):
        return self.below(den) < num

    def pick(self, xs):
        return xs[self.below(len(xs))]

    def shuffle(self, xs):
        xs = list(xs)
        for i in range(len(xs) - 1, 0, -1):
            j = self.below(i + 1)
            xs[i], xs[j] = xs[j], xs[i]
        return xs

    def fork(self):
        return SplitMix(self.next())


def sh(cmd, cwd=None, env=None, timeout=None, input=None):
    p = subprocess.run(cmd, cwd=cwd, env=env, timeout=timeout, input=input,
                       stdout=subprocess.PIPE, stderr=subprocess.STDOUT, text=True)
    return p.returncode, p.stdout


class BuildError(Exception):
    def __init__(self, what, output):
        super().__init__(what)
        self.what = what
        self.output = output


def write_if_changed(path, text):
    try:
        with open(path) as f:
            if f.read() == text:
                return False
    except FileNotFoundError:
        pass
    os.makedirs(os.path.dirname(path), exist_ok=True)
    with open(path, "w") as f:
        f.write(text)
    return True


def make_overlay():
    """pkg/cmd needs two git-ignored generated files; supply them through -overlay, from
    the working tree's own report.html, without touching /repo."""
    od = os.path.join(BUILD, "overlay")
    os.makedirs(od, exist_ok=True)
    write_if_changed(os.path.join(od, "version.go"),
                     "// stands in for `go generate` (vergen.sh)\npackage cmd\n\nconst versionName = \"verif harness build\"\n")
    html = open(os.path.join(REPO, "pkg/cmd/report.html")).read()
    lines = [re.sub(r"^[ \t]*", "", l) for l in html.split("\n")]
    body = "\n".join(l for l in lines if l != "")
    write_if_changed(os.path.join(od, "report_html.go"),
                     "package cmd\n\nconst reportHTML = `" + body + "\n`")
    ov = {"Replace": {
        os.path.join(REPO, "pkg/cmd/version.go"): os.path.join(od, "version.go"),
        os.path.join(REPO, "pkg/cmd/report_html.go"): os.path.join(od, "report_html.go")}}
    p = os.path.join(BUILD, "overlay.json")
    write_if_changed(p, json.dumps(ov))
    return p


def repo_go_line():
    for l in open(os.path.join(REPO, "go.mod")):
        m = re.match(r"^go\s+(\S+)", l)
        if m:
            return m.group(1)
    return "1.12"


class build_lock:
    """serialises the build steps of checks that run at the same time in one /verif (they share .build and lean/.lake)"""
    def __enter__(self):
        import fcntl
        os.makedirs(BUILD, exist_ok=True)
        self.f = open(os.path.join(BUILD, "lock"), "w")
        fcntl.flock(self.f, fcntl.LOCK_EX)
        return self

    def __exit__(self, *a):
        import fcntl
        fcntl.flock(self.f, fcntl.LOCK_UN)
        self.f.close()


def build_go():
    with build_lock():
        return build_go_locked()


def build_go_locked():
    """Build the harness (with hooks) and the real binary from /repo's working tree."""
    os.makedirs(BUILD, exist_ok=True)
    ov = make_overlay()
    # the harness module mirrors /repo's go directive (timer-channel semantics, DESIGN C18)
    gomod = ("module verifharness\n\ngo %s\n\nrequire github.com/knz/shakespeare v0.0.0\n\n"
             "replace github.com/knz/shakespeare => %s\n" % (repo_go_line(), REPO))
    write_if_changed(os.path.join(HARNESS, "go.mod"), gomod)
    write_if_changed(os.path.join(HARNESS, "go.sum"), open(os.path.join(REPO, "go.sum")).read())
    t0 = time.time()
    rc, out = sh(["go", "build", "-tags", "verif", "-overlay", ov, "-o",
                  os.path.join(BUILD, "vharness"), "./cmd/vharness"], cwd=HARNESS, env=GOENV)
    if rc != 0:
        raise BuildError("harness does not build against the working tree", out)
    rc, out = sh(["go", "build", "-overlay", ov, "-o", os.path.join(BUILD, "shakespeare"), "."],
                 cwd=REPO, env=GOENV)
    if rc != 0:
        raise BuildError("shakespeare does not build", out)
    # the same program with the pause points compiled in (VERIF_POINTS steers schedules)
    rc, out = sh(["go", "build", "-tags", "verif", "-overlay", ov, "-o", os.path.join(BUILD, "shakespeare-verif"), "."],
                 cwd=REPO, env=GOENV)
    if rc != 0:
        raise BuildError("shakespeare does not build with -tags verif", out)
    return time.time() - t0


def lake_build(targets):
    with build_lock():
        rc, out = sh(["lake", "build"] + targets, cwd=LEAN)
    return rc == 0, out


def build_driver():
    ok, out = lake_build(["shkdrv"])
    if not ok:
        raise BuildError("model driver does not build", out)
    return os.path.join(LEAN, ".lake", "build", "bin", "shkdrv")


def theorem_names(prop_file):
    src = open(prop_file).read()
    src_nc = strip_comments(src)
    return re.findall(r"^theorem\s+([^\s:({\[]+)", src_nc, re.M)


def strip_comments(src):
    # remove /- ... -/ (nested not expected) and -- comments
    src = re.sub(r"/-.*?-/", "", src, flags=re.S)
    src = re.sub(r"--.*", "", src)
    return src


def lean_sources_for(prop):
    """files whose text is audited for forbidden constructs."""
    res = []
    for root, _, files in os.walk(os.path.join(LEAN, "ShkModel")):
        for f in files:
            if f.endswith(".lean"):
                res.append(os.path.join(root, f))
    res.append(os.path.join(LEAN, "Main.lean"))
    return res


def audit_sources(prop):
    bad = []
    for f in lean_sources_for(prop):
        if not os.path.exists(f):
            continue
        txt = strip_comments(open(f).read())
        for m in FORBIDDEN_RE.finditer(txt):
            bad.append("%s: %s" % (os.path.relpath(f, VERIF), m.group(0).strip()))
    return bad


def check_proofs(prop, namespace="Shk"):
    """Build Props.<prop>, list its theorems and their axioms.
    Returns dict(ok, theorems, failed_output, axioms, bad_axioms, forbidden)."""
    mod = "ShkModel.Props.%s" % prop
    pf = os.path.join(LEAN, "ShkModel", "Props", prop + ".lean")
    res = {"module": mod, "theorems": [], "ok": False, "output": "", "axioms": {},
           "bad_axioms": {}, "forbidden": audit_sources(prop)}
    if not os.path.exists(pf):
        res["output"] = "no property file"
        return res
    names = theorem_names(pf)
    res["theorems"] = names
    ok, out = lake_build([mod])
    res["ok"] = ok
    res["output"] = out
    if not ok:
        return res
    # axiom audit
    ns = namespace + "." + prop
    audit = "import %s\n" % mod + "".join("#print axioms %s.%s\n" % (ns, n) for n in names)
    ap = os.path.join(BUILD, "Audit_%s.lean" % prop)
    os.makedirs(BUILD, exist_ok=True)
    with open(ap, "w") as f:
        f.write(audit)
    # (under the build lock: another check of the same /verif may be rebuilding modules the audit imports)
    with build_lock():
        rc, out = sh(["lake", "env", "lean", ap], cwd=LEAN)
    if rc != 0:
        res["ok"] = False
        res["output"] = "axiom audit failed:\n" + out
        return res
    cur = None
    text = out.replace("\n  ", " ")
    for m in re.finditer(r"'([^']+)' (depends on axioms: \[([^\]]*)\]|does not depend on any axioms)", text):
        full = m.group(1)
        # the name relative to the property's namespace (theorems may have dotted names: `Grows.of_same`)
        name = full[len(ns) + 1:] if full.startswith(ns + ".") else full.split(".")[-1]
        axs = [a.strip() for a in (m.group(3) or "").split(",") if a.strip()]
        res["axioms"][name] = axs
        extra = [a for a in axs if a not in ALLOWED_AXIOMS]
        if extra:
            res["bad_axioms"][name] = extra
    missing = [n for n in names if n not in res["axioms"]]
    if missing:
        res["ok"] = False
        res["output"] = "axiom audit incomplete, missing: %s\n%s" % (missing, out)
    if res["bad_axioms"] or res["forbidden"]:
        res["ok"] = False
        res["output"] += "\nforbidden constructs or axioms: %s %s" % (res["bad_axioms"], res["forbidden"])
    return res


def leanchecker(prop):
    with build_lock():
        rc, out = sh(["lake", "env", "leanchecker", "ShkModel.Props.%s" % prop], cwd=LEAN)
    return rc == 0, out


class LineProc:
    """A persistent child speaking one-line-in / one-line-out."""

    def __init__(self, argv, name, env=None):
        self.argv = argv
        self.name = name
        self.env = env
        self.p = None
        self.calls = 0
        # no answer within this many seconds: the child is killed and the call counts as a hang (a check never waits
        # for ever on a deadlocked implementation)
        self.timeout = float(os.environ.get("VERIF_ASK_TIMEOUT", "240"))
        self.hangs = 0
        self.last_hang = False

    def _readline(self):
        """one answer line, or "" when the child died or did not answer in time (then it is killed)."""
        import threading
        p = self.p
        fired = []

        def kill():
            fired.append(1)
            try:
                p.kill()
            except Exception:
                pass
        t = threading.Timer(self.timeout, kill)
        t.daemon = True
        t.start()
        try:
            out = p.stdout.readline()
        finally:
            t.cancel()
        if fired:
            self.hangs += 1
            self.last_hang = True
            return ""
        return out

    def start(self):
        self.p = subprocess.Popen(self.argv, stdin=subprocess.PIPE, stdout=subprocess.PIPE,
                                  stderr=subprocess.DEVNULL, text=True, bufsize=1, env=self.env)

    def ask(self, line):
        if self.p is None or self.p.poll() is not None:
            self.start()
        self.calls += 1
        try:
            self.p.stdin.write(line + "\n")
            self.p.stdin.flush()
            self.last_hang = False
            out = self._readline()
        except BrokenPipeError:
            out = ""
        if out == "":
            # child died: report and restart lazily
            rc = self.p.poll()
            self.p = None
            return None
        return out.rstrip("\n")

    def ask_many(self, lines):
        """batch: write all, read all (child must answer one line per line)."""
        if not lines:
            return []
        if self.p is None or self.p.poll() is not None:
            self.start()
        res = []
        CH = 200
        for i in range(0, len(lines), CH):
            chunk = lines[i:i + CH]
            self.calls += len(chunk)
            self.p.stdin.write("".join(l + "\n" for l in chunk))
            self.p.stdin.flush()
            for _ in chunk:
                out = self._readline()
                if out == "":
                    self.p = None
                    res.append(None)
                    # restart and continue with remaining lines individually
                    rest = lines[len(res):]
                    for l in rest:
                        res.append(self.ask(l))
                    return res
                res.append(out.rstrip("\n"))
        return res

    def close(self):
        if self.p is not None:
            try:
                self.p.stdin.close()
                self.p.wait(timeout=5)
            except Exception:
                self.p.kill()
            self.p = None


class Impl(LineProc):
    """vharness: JSON in, JSON out, against the real code."""

    def __init__(self):
        env = dict(os.environ, GOMEMLIMIT="4GiB")
        super().__init__([os.path.join(BUILD, "vharness")], "vharness", env=env)

    def call(self, op, **kw):
        req = dict(kw)
        req["Op"] = op
        out = self.ask(json.dumps(req))
        if out is None:
            return {"harnessCrash": True, "hang": self.last_hang}
        return json.loads(out)


class Model(LineProc):
    """shkdrv: the Lean model driver, token protocol."""

    def __init__(self):
        super().__init__([os.path.join(LEAN, ".lake", "build", "bin", "shkdrv")], "shkdrv")


def hexs(s):
    """strings travel hex-encoded (utf-8) so that any byte survives the token protocol."""
    if isinstance(s, str):
        s = s.encode("utf-8")
    return "x" + s.hex()


def unhex(t):
    return bytes.fromhex(t[1:]).decode("utf-8", "replace")


class Scratch:
    def __init__(self, prefix="verif-"):
        self.dir = tempfile.mkdtemp(prefix=prefix)

    def __enter__(self):
        return self.dir

    def __exit__(self, *a):
        shutil.rmtree(self.dir, ignore_errors=True)


def load_known_findings():
    p = os.path.join(VERIF, "known_findings.json")
    try:
        return json.load(open(p))["findings"]
    except FileNotFoundError:
        return []


class Report:
    """Collects what one run of one property's check did; writes evidence; decides the exit."""

    def __init__(self, prop, tier, seed, level):
        self.prop = prop
        self.tier = tier
        self.seed = seed
        self.level = level
        self.t0 = time.time()
        self.obligations = []       # (name, kind, ok, detail)
        self.violations = []        # (replay_path, nofail)
        self.known_hits = []
        self.samples = []
        self.cov = {}
        self.assumptions = []
        self.trusted = []
        self.evaluations = 0
        self.distinct = set()
        self.known = [k for k in load_known_findings() if k.get("property") == prop]

    # -- obligations ---------------------------------------------------------
    def obligation(self, name, kind, ok, detail=""):
        self.obligations.append({"name": name, "kind": kind, "ok": bool(ok), "detail": detail[:2000]})

    def count(self, key, n=1):
        self.cov[key] = self.cov.get(key, 0) + n

    def sample(self, s, cap=6):
        if len(self.samples) < cap:
            self.samples.append(s)

    def case(self, key, nontrivial=True):
        self.evaluations += 1
        if nontrivial:
            self.distinct.add(key if isinstance(key, (str, int, tuple)) else json.dumps(key, sort_keys=True))

    # -- findings / violations --------------------------------------------
    def match_known(self, tags):
        """tags: dict describing the failing input; a known finding matches when every
        key of its 'match' equals the tag's value."""
        for k in self.known:
            if k.get("status") != "known":
                continue
            m = k.get("match", {})
            if all(tags.get(a) == b for a, b in m.items()):
                return k
        return None

    def violation(self, what, replay, tags=None, nofail=False):
        """replay: JSON-serialisable description.  Returns True if reported as violation."""
        tags = tags or {}
        k = self.match_known(tags)
        if k is not None:
            line = "KNOWN-FINDING: property=%s %s" % (self.prop, k.get("what", what))
            if line not in self.known_hits:
                self.known_hits.append(line)
                print(line, flush=True)
            return False
        os.makedirs(REPLAYS, exist_ok=True)
        n = len(self.violations)
        path = os.path.join(REPLAYS, "%s-%s-%d-%d.json" % (self.prop, self.tier, self.seed, n))
        with open(path, "w") as f:
            json.dump({"property": self.prop, "what": what, "tags": tags, "replay": replay,
                       "no_failing_input_found": nofail}, f, indent=1, default=str)
        self.violations.append((path, nofail))
        print("VIOLATION property=%s replay=%s%s" % (self.prop, path,
              " no-failing-input-found" if nofail else ""), flush=True)
        return True

    # -- evidence ----------------------------------------------------------
    def finish(self, checker_cmd, rule, exhaustive=False, explanation=None):
        # safety net: an obligation that was not discharged is a violation, whatever the check's own verdict logic
        # did with it (e.g. failures matching a known finding must not hide a broken proof or a disagreement)
        undone = [o for o in self.obligations if not o["ok"]]
        if undone and not self.violations:
            self.violation("obligation(s) not discharged: " + "; ".join(o["name"][:120] for o in undone[:3]),
                           {"broken": [o["name"] for o in undone], "details": [o["detail"] for o in undone[:3]]}, nofail=True)
        obl = len(self.obligations)
        dis = sum(1 for o in self.obligations if o["ok"])
        cov = {
            "obligations": obl,
            "discharged": dis,
            "checker_cmd": checker_cmd,
            "trusted_base": self.trusted,
            "evaluations": self.evaluations,
            "distinct_nontrivial": len(self.distinct),
            "rule": rule,
            "samples": self.samples or ["(none)"],
            "obligation_list": self.obligations,
            "distribution": self.cov,
            "exhaustive": bool(exhaustive),
            "known_findings_hit": self.known_hits,
        }
        if explanation:
            cov["explanation"] = explanation
        ev = {
            "property_id": self.prop,
            "tier": self.tier,
            "seed": self.seed,
            "level": self.level,
            "coverage": cov,
            "assumptions": self.assumptions,
            "wall_s": round(time.time() - self.t0, 2),
            "violations": len(self.violations),
        }
        os.makedirs(EVID, exist_ok=True)
        with open(os.path.join(EVID, self.prop + ".json"), "w") as f:
            json.dump(ev, f, indent=1, default=str)
        return 1 if self.violations else 0


def lean_str(s):
    return json.dumps(s, ensure_ascii=False)


def failed_theorems(prop, output):
    """map `error: ShkModel/Props/<prop>.lean:LINE:` messages to the theorem they sit in."""
    pf = os.path.join(LEAN, "ShkModel", "Props", prop + ".lean")
    lines = open(pf).read().split("\n")
    starts = []
    for i, l in enumerate(lines):
        m = re.match(r"^(?:private\s+)?theorem\s+([^\s:({\[]+)", l)
        if m:
            starts.append((i + 1, m.group(1)))
    res = []
    for m in re.finditer(r"error: ShkModel/Props/%s\.lean:(\d+):" % prop, output):
        ln = int(m.group(1))
        name = None
        for s, n in starts:
            if s <= ln:
                name = n
        if name and name not in res:
            res.append(name)
    return res


def standard_proof_step(rep, prop, thorough=False):
    """Run the proof obligations of a property: build, forbidden-construct grep, axiom audit,
    (thorough) leanchecker.  Registers one obligation per theorem.  Returns (ok, info)."""
    info = check_proofs(prop)
    failed = failed_theorems(prop, info["output"]) if not info["ok"] else []
    if info["ok"]:
        for n in info["theorems"]:
            rep.obligation("theorem %s.%s" % (prop, n), "P/G", True,
                           "axioms: " + ",".join(info["axioms"].get(n, [])))
    else:
        for n in info["theorems"]:
            rep.obligation("theorem %s.%s" % (prop, n), "P/G", n not in failed and bool(failed),
                           "" if n not in failed else "does not check")
        if not failed:
            rep.obligation("lake build ShkModel.Props.%s" % prop, "P/G", False, info["output"][-1500:])
    if info["ok"] and thorough:
        ok, out = leanchecker(prop)
        rep.obligation("leanchecker ShkModel.Props.%s" % prop, "P", ok, out[-500:])
        if not ok:
            info["ok"] = False
            info["output"] += "\nleanchecker: " + out
    info["failed"] = failed
    rep.trusted = ["Lean 4.33 kernel", "axioms: propext, Quot.sound, Classical.choice (at most)",
                   "vlib (Python orchestration, generators, canonicalisers)",
                   "vharness + pkg/*/verif_api.go hooks"]
    return info["ok"], info
