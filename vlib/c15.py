"""C15 — the stopper drains tasks, then workers, then closers, and refuses late work."""
import json
from .common import *

PROP = "C15"
KNAME = {0: "RunTask", 1: "RunAsyncTask", 2: "RunLimitedAsyncTask(nowait)", 3: "RunLimitedAsyncTask(wait)",
         4: "RunWorker", 5: "AddCloser", 6: "WithCancelOnQuiesce", 7: "WithCancelOnStop", 8: "Quiesce", 9: "Stop"}
GATED = (0, 1, 2, 3, 4)


# ---------------------------------------------------------------- generators
def gen_seq(rng, n):
    """settled-sequential script: one action at a time; the model says what must have happened
    once everything has settled.  Returns (cap, ops) with ops = ('c',kind) | ('o',i) | ('x',i)."""
    cap = rng.pick([1, 1, 2, 3])
    ops, kinds, opened, cancelled = [], [], set(), set()
    stop_after = rng.range(2, max(3, n))
    for step in range(n):
        r = rng.below(100)
        gated = [i for i, k in enumerate(kinds) if k in GATED and i not in opened]
        ctxs = [i for i, k in enumerate(kinds) if k in (6, 7) and i not in cancelled]
        if r < 30 and gated:
            i = rng.pick(gated)
            opened.add(i)
            ops.append(("o", i))
        elif r < 36 and ctxs:
            i = rng.pick(ctxs)
            cancelled.add(i)
            ops.append(("x", i))
        else:
            if step >= stop_after and rng.chance(1, 4):
                k = rng.pick([9, 9, 8])
            else:
                k = rng.pick([0, 1, 1, 2, 2, 3, 3, 4, 4, 5, 5, 6, 7, 8 if rng.chance(1, 3) else 1])
            kinds.append(k)
            ops.append(("c", k))
    return cap, ops


def seq_tokens(ops):
    return ",".join("%s%d" % o for o in ops)


def seq_acts(ops):
    m = {"c": lambda v: {"K": "call", "Kind": v}, "o": lambda v: {"K": "open", "I": v}, "x": lambda v: {"K": "cancel", "I": v}}
    return [m[k](v) for k, v in ops]


def gen_sched(rng, size):
    """concurrent gated schedule.  Calls run in their own goroutines and are NOT waited for; task
    bodies, workers (and closers, when gate_closers) block on gates opened at chosen points relative to
    Stop's progress (waitq / waits / waitd nudge the schedule past a phase; they time out harmlessly)."""
    cap = rng.pick([1, 2, 2, 3])
    gate_closers = rng.chance(1, 3)
    acts, kinds, opened = [], [], set()

    def call(k):
        kinds.append(k)
        acts.append({"K": "call", "Kind": k})

    def nudge():
        r = rng.below(10)
        if r < 4:
            acts.append({"K": "yield", "N": rng.below(4)})
        elif r < 5:
            acts.append({"K": "sleep", "N": rng.pick([20, 100, 300])})

    npre = rng.range(1, size)
    for _ in range(npre):
        call(rng.pick([0, 1, 1, 2, 3, 3, 4, 4, 5, 5, 6, 7]))
        if rng.chance(1, 3):
            nudge()
        if rng.chance(1, 6):
            g = [i for i, k in enumerate(kinds) if k in GATED and i not in opened]
            if g:
                i = rng.pick(g)
                opened.add(i)
                acts.append({"K": "open", "I": i})
    nstops = rng.pick([1, 1, 1, 2, 3])
    if rng.chance(1, 3):
        call(8)
        nudge()
    stops_left = nstops
    # the racing part: Stop / Quiesce, late calls, gate openings, phase nudges
    nmid = rng.range(2, size + 2)
    for step in range(nmid):
        r = rng.below(100)
        g = [i for i, k in enumerate(kinds) if (k in GATED or (gate_closers and k == 5)) and i not in opened]
        if stops_left and (r < 25 or step == 0):
            call(9)
            stops_left -= 1
        elif r < 55 and g:
            # prefer the order tasks -> workers -> closers some of the time, any order otherwise
            if rng.chance(1, 2):
                g.sort(key=lambda i: {0: 0, 1: 0, 2: 0, 3: 0, 4: 1, 5: 2}[kinds[i]])
                i = g[0]
            else:
                i = rng.pick(g)
            opened.add(i)
            acts.append({"K": "open", "I": i})
        elif r < 75:
            call(rng.pick([0, 1, 2, 3, 4, 5, 5, 6, 7, 8]))
        elif r < 90:
            acts.append({"K": rng.pick(["waitq", "waits", "waits", "waitd"])})
        else:
            nudge()
    while stops_left:
        call(9)
        stops_left -= 1
    if rng.chance(1, 2):
        # a burst of late calls racing with the end of Stop
        for _ in range(rng.range(1, 4)):
            call(rng.pick([0, 1, 2, 3, 5, 6, 7, 9]))
    acts.append({"K": "openall"})
    if rng.chance(1, 2):
        acts.append({"K": "waitd"})
        for _ in range(rng.range(0, 3)):
            call(rng.pick([0, 1, 2, 3, 5, 6, 7, 9, 8]))
    acts.append({"K": "join"})
    acts.append({"K": "fin"})
    return cap, gate_closers, acts


def sched_key(cap, gc, acts):
    return "%d%s:" % (cap, "g" if gc else "") + ",".join(
        (a["K"][0] + str(a.get("Kind", a.get("I", a.get("N", ""))))) if a["K"] in ("call", "open", "yield", "sleep") else a["K"] for a in acts)


# hand-written schedules that pin the orderings of the property
CORPUS_SCHED = [
    # task, worker, closer all held; Stop; release in the order closer-gate, worker, task (the wrong way round)
    (1, True, [{"K": "call", "Kind": 1}, {"K": "call", "Kind": 4}, {"K": "call", "Kind": 5}, {"K": "yield", "N": 3},
               {"K": "call", "Kind": 9}, {"K": "waitq"}, {"K": "call", "Kind": 0}, {"K": "call", "Kind": 5},
               {"K": "open", "I": 2}, {"K": "waits"}, {"K": "open", "I": 1}, {"K": "waits"}, {"K": "open", "I": 0},
               {"K": "waits"}, {"K": "call", "Kind": 5}, {"K": "waitd"}, {"K": "openall"}, {"K": "join"}, {"K": "fin"}]),
    # limited tasks filling the semaphore, a waiter, then Stop
    (1, False, [{"K": "call", "Kind": 3}, {"K": "yield", "N": 3}, {"K": "call", "Kind": 2}, {"K": "call", "Kind": 3},
                {"K": "sleep", "N": 200}, {"K": "call", "Kind": 9}, {"K": "waitq"}, {"K": "call", "Kind": 3},
                {"K": "open", "I": 0}, {"K": "waitd"}, {"K": "openall"}, {"K": "join"}, {"K": "fin"}]),
    # Quiesce twice, two Stops, contexts
    (2, False, [{"K": "call", "Kind": 6}, {"K": "call", "Kind": 7}, {"K": "call", "Kind": 1}, {"K": "call", "Kind": 8},
                {"K": "call", "Kind": 8}, {"K": "waitq"}, {"K": "call", "Kind": 6}, {"K": "call", "Kind": 9},
                {"K": "call", "Kind": 9}, {"K": "open", "I": 2}, {"K": "waitd"}, {"K": "call", "Kind": 7},
                {"K": "call", "Kind": 5}, {"K": "openall"}, {"K": "join"}, {"K": "fin"}]),
]


def log_stats(rep, log):
    for e in log:
        f = e.split(".")
        rep.count("log-" + {"C": "call", "R": "ret", "B": "bodyStart", "E": "bodyEnd", "W": "workerStart", "X": "workerEnd",
                            "K": "closerCalled", "N": "ctxCancelled", "F": "fin"}.get(f[0], f[0]))
        if f[0] == "R" and f[2] in "0123":
            rep.count("task-ret-" + ["nil", "ErrUnavailable", "ErrThrottled", "other"][min(int(f[3]), 3)])


def run(tier, seed):
    rep = Report(PROP, tier, seed, "proof")
    rep.assumptions = [
        "each mu.Lock..Unlock region of stopper.go, each channel operation and each WaitGroup operation is one atomic step (Go's mutex / channel / WaitGroup semantics are trusted); regions that run callbacks under the mutex are split into several steps, which only adds interleavings",
        "not modelled: panics (Recover, the recover() branch of Stop), cancellation of the caller's own context in RunLimitedAsyncTask, the task-name map, the global registry of stoppers",
        "'every worker has returned before stopped' is stated for workers whose RunWorker was seen to return while the stop channel was still open (a RunWorker issued after stop.Wait() returned cannot be waited for by the code)",
        "sync.WaitGroup's contract (no Add-from-zero concurrently with Wait) is not enforced by RunWorker; when a RunWorker races with the very end of stop.Wait() the Go runtime may panic inside Stop/RunWorker ('WaitGroup is reused before previous Wait has returned'). The model trusts the WaitGroup; such runs are counted as waitgroup-misuse-panic, reported with a NOTE line, and their logs are still checked",
        "K-C15b observes the real Stopper only through callbacks and API returns; the three channels and len(sem) are sampled under the log mutex"]
    try:
        build_go()
        build_driver()
    except BuildError as e:
        rep.obligation("build", "K", False, e.output)
        rep.violation("build failed: " + e.what, {"output": e.output[-4000:], "broken": "K-C15 (build)"}, nofail=True)
        return rep.finish("./check C15", "n/a")
    impl, model = Impl(), Model()
    impl.timeout = 90      # the op has its own time-outs (about 10 s); no answer at all = the Stopper dead-locked the harness
    ok, info = standard_proof_step(rep, PROP, thorough=(tier == "thorough"))
    rng = SplitMix(seed)

    # ---- the model's own logs satisfy LogOk (sanity of the executable spec; the theorem is C15.reach_logOk)
    nsim = 600 if tier == "quick" else 12000
    sims = ["C15 sim %d %d %d" % (rng.below(4), rng.below(2 ** 40), rng.range(50, 700)) for _ in range(nsim)]
    simres = model.ask_many(sims)
    simbad = [(q, a) for q, a in zip(sims, simres) if not (a or "").startswith("ok")]
    rep.count("model-interleavings", nsim)
    rep.evaluations += nsim
    rep.obligation("S-C15: LogOk + marker order on %d pseudo-random interleavings of the model" % nsim, "K", not simbad,
                   json.dumps(simbad[:3]))

    # ---- K-C15a: settled-sequential scripts, model vs real Stopper ---------------------------
    nseq = 1200 if tier == "quick" else 16000
    kdis = []
    harness_trouble = []
    for n in range(nseq):
        cap, ops = gen_seq(rng, rng.range(3, 22))
        toks = seq_tokens(ops)
        m = model.ask("C15 seq %d %s" % (cap, toks))
        if not m or m == "bad-op":
            kdis.append({"cap": cap, "ops": toks, "model": m})
            continue
        exp = m.split("|")
        r = impl.call("stopper", Cap=cap, Acts=seq_acts(ops), Expect=exp)
        rep.case(("s", cap, toks))
        for k, v in ops:
            rep.count("seq-" + ({"o": "open-gate", "x": "user-cancel"}.get(k) or KNAME[v]))
        if r.get("harnessCrash") or r.get("harnessError") or r.get("panicked"):
            harness_trouble.append({"cap": cap, "ops": toks, "res": r, "Acts": seq_acts(ops), "Expect": exp})
            if sum(1 for h in harness_trouble if h["res"].get("hang")) >= 2:
                break
            continue
        got = r.get("obs") or []
        if got != exp or r.get("final") != exp[-1] or r.get("hung") or r.get("panics"):
            first = next((i for i, (a, b) in enumerate(zip(got, exp)) if a != b), len(exp) - 1)
            kdis.append({"cap": cap, "ops": toks, "first_diff_at_op": first,
                         "impl": got[first] if first < len(got) else None, "model": exp[first],
                         "final": r.get("final"), "hung": r.get("hung"), "panics": r.get("panics")})
        if n == 0:
            rep.sample({"sequential_script": toks, "cap": cap, "observations": exp[-3:]})
    rep.obligation("K-C15a: real Stopper vs model on %d settled-sequential scripts (returns, channel states, NumTasks, len(sem), callback counts)" % nseq,
                   "K", not kdis and not harness_trouble, json.dumps((kdis + harness_trouble)[:3]))

    # ---- K-C15b / O-C15: concurrent gated schedules, LogOk on the real logs ------------------
    nsch = 1000 if tier == "quick" else 12000
    scheds = list(CORPUS_SCHED) + [gen_sched(rng, rng.range(2, 9)) for _ in range(nsch)]
    ofail, hangs, wg_runs = [], [], []
    batch = []
    for cap, gc, acts in scheds:
        r = impl.call("stopper", Cap=cap, Acts=acts, GateClosers=gc)
        key = sched_key(cap, gc, acts)
        rep.case(("c", key))
        rep.count("sched-gated-closers" if gc else "sched-free-closers")
        if r.get("harnessCrash") or r.get("harnessError") or r.get("panicked"):
            harness_trouble.append({"sched": key, "res": r, "Cap": cap, "GateClosers": gc, "Acts": acts})
            if sum(1 for h in harness_trouble if h["res"].get("hang")) >= 2:
                break
            continue
        log = r.get("log") or []
        log_stats(rep, log)
        # sync.WaitGroup forbids Add-from-zero concurrently with Wait; RunWorker has no guard, so a RunWorker racing
        # with the very end of stop.Wait() can make the runtime panic inside Stop (or RunWorker).  That is outside
        # the orderings C15 states (Stop then simply never reports `stopped`); such runs are counted and reported,
        # their logs are still checked against LogOk.
        wgp = [p for p in (r.get("panics") or []) if "WaitGroup" in p]
        other_panics = [p for p in (r.get("panics") or []) if "WaitGroup" not in p]
        if wgp:
            rep.count("waitgroup-misuse-panic")
            wg_runs.append({"cap": cap, "gate_closers": gc, "acts": acts, "panics": wgp})
        if (r.get("hung") and not wgp) or other_panics or [t for t in (r.get("timeouts") or []) if "cancel " not in t]:
            hangs.append({"cap": cap, "gate_closers": gc, "acts": acts, "hung": r.get("hung"), "panics": r.get("panics"),
                          "timeouts": r.get("timeouts"), "log": log})
            if len(hangs) >= 5:
                # every hanging schedule costs the harness's own time-outs: five are enough for the verdict
                batch.append((cap, gc, acts, log))
                break
        batch.append((cap, gc, acts, log))
    ores = model.ask_many(["C15 oracle-log %d %s" % (cap, ",".join(log) or "-") for cap, gc, acts, log in batch])
    for (cap, gc, acts, log), o in zip(batch, ores):
        if o != "ok":
            ofail.append({"cap": cap, "gate_closers": gc, "acts": acts, "log": log, "oracle": o})
    if batch:
        rep.sample({"gated_schedule": sched_key(*batch[0][:3]), "real_log": batch[0][3][:12], "oracle": ores[0]})
    rep.obligation("O-C15: LogOk on the logs of %d concurrent gated schedules of the real Stopper" % len(scheds), "O",
                   not ofail and not hangs, json.dumps([{k: v for k, v in f.items() if k != "log"} for f in (ofail + hangs)[:2]]))
    rep.obligation("K-C15b: no call hangs, no panic, every context cancelled once all gates are open and Stop was called", "K",
                   not hangs and not harness_trouble, json.dumps([{k: v for k, v in f.items() if k != "log"} for f in hangs[:2]]))

    if wg_runs:
        # a recorded finding (known_findings.json): Stop never reports itself stopped on these schedules
        rep.violation("%d of %d schedules: the Go runtime panicked with a sync.WaitGroup misuse inside Stop/RunWorker "
                      "(RunWorker racing with the end of stop.Wait()); Stop then never closes `stopped` nor calls the closers"
                      % (len(wg_runs), len(scheds)), {"schedule": wg_runs[0]}, tags={"kind": "waitgroup-misuse-panic"})
        rep.sample({"waitgroup_misuse": wg_runs[0]}, cap=8)
    if ofail:
        f = ofail[0]
        rule = f["oracle"].split(" ")
        rep.violation("real Stopper log violates LogOk: " + f["oracle"],
                      {"op": "stopper", "Cap": f["cap"], "GateClosers": f["gate_closers"], "Acts": f["acts"], "log": f["log"],
                       "oracle": f["oracle"], "how": "vharness op 'stopper' with these acts; schedule-dependent, repeat if needed",
                       "all_failing": len(ofail)},
                      tags={"rule": rule[2] if len(rule) > 2 else "?", "entry": (rule[3].split(".")[0] if len(rule) > 3 else "?")})
    elif hangs:
        f = hangs[0]
        rep.violation("real Stopper hangs / panics / never cancels a context on a gated schedule",
                      {"op": "stopper", "Cap": f["cap"], "GateClosers": f["gate_closers"], "Acts": f["acts"], "hung": f["hung"],
                       "panics": f["panics"], "timeouts": f["timeouts"], "log": f["log"]}, tags={"rule": "hang"})
    elif [h for h in harness_trouble if h["res"].get("hang") or h["res"].get("harnessCrash")]:
        h = [h for h in harness_trouble if h["res"].get("hang") or h["res"].get("harnessCrash")][0]
        rep.violation("the real Stopper %s the harness on this %s (no answer: a call of the Stopper API never returned, or the "
                      "process died)" % ("dead-locked" if h["res"].get("hang") else "crashed",
                                         "gated schedule" if "sched" in h else "sequential script"),
                      {"op": "stopper", "Cap": h.get("Cap", h.get("cap")), "GateClosers": h.get("GateClosers", False),
                       "Acts": h["Acts"], "Expect": h.get("Expect"), "result": h["res"],
                       "how": "vharness op 'stopper' with these acts; schedule-dependent, repeat if needed"},
                      tags={"rule": "hang"})
    else:
        if not ok:
            rep.violation("proof obligations of C15 no longer check",
                          {"broken_theorems": info["failed"], "lean_output": info["output"][-3000:]}, nofail=True)
        elif kdis or harness_trouble or simbad:
            rep.violation("correspondence K-C15a disagrees (model vs real Stopper)",
                          {"broken": "K-C15a", "disagreements": (kdis + harness_trouble)[:10], "model_self_check": simbad[:3]}, nofail=True)
    impl.close()
    model.close()
    return rep.finish("cd lean && lake build ShkModel.Props.C15 && #print axioms",
                      "model self-check: pseudo-random interleavings (seeded); K-C15a: random settled-sequential scripts over 10 call kinds + gate openings + user cancels, distinct by (cap, script); K-C15b/O: random gated schedules (calls not waited for, gates opened relative to Stop's progress) + 3 pinned schedules, distinct by schedule text; non-trivial = at least one call")


def replay(path):
    d = json.load(open(path))
    rp = d["replay"]
    build_go()
    build_driver()
    impl, model = Impl(), Model()
    bad = 0
    for _ in range(50):
        r = impl.call("stopper", Cap=rp["Cap"], Acts=rp["Acts"], GateClosers=rp.get("GateClosers", False))
        o = model.ask("C15 oracle-log %d %s" % (rp["Cap"], ",".join(r.get("log") or []) or "-"))
        if o != "ok" or r.get("hung"):
            bad += 1
            print("FAIL", o, r.get("hung"))
            break
    impl.close()
    model.close()
    print("replayed: %s" % ("violation reproduced" if bad else "no violation in 50 runs"))
    return 1 if bad else 0
