"""C01 — audit modalities judge a period by their plain meaning."""
import json
import os
from .common import *
from . import gen_tables

PROP = "C01"

CFG_HEAD = """role r
  spotlight true
  signal s scalar at (?P<ts_now>)(?P<scalar>\\d+)
end
cast
  a plays r
end
audience
"""


def config_signal_only(names):
    """the predicate mentions the signal only: the auditor is woken by samples alone, its period starts with the
    first sample and is closed in the final round; repeated identical samples are separate observations"""
    out = CFG_HEAD
    for i, n in enumerate(names):
        out += "  m%d audits throughout\n  m%d expects %s: [a s] > 0\n" % (i, i, n)
    out += "end\n"
    return out


def config_signal_conditioned(names):
    """the activation condition itself reads the signal (and holds for every sample): the period opens with the first
    sample and is still open when the play ends — the final round brings no sample, and must close it all the same"""
    out = CFG_HEAD
    for i, n in enumerate(names):
        out += "  m%d audits only while [a s] >= 0\n  m%d expects %s: [a s] > 0\n" % (i, i, n)
    out += "end\n"
    return out


def config_condition_closed(names):
    """the activation condition reads the signal and is switched off by a last sample; the round that finds the
    condition false still judges the predicate on that sample (checkEventForAuditor: "we're on the ending event"; the
    model's assumption that a period's closing round belongs to the period, DESIGN 10.3 / known finding C02
    closing-round-judged), so the period's observations are the word plus the closing sample's truth value"""
    out = CFG_HEAD
    for i, n in enumerate(names):
        out += "  m%d audits only while [a s] < 2\n  m%d expects %s: [a s] == 1 || [a s] == 3\n" % (i, i, n)
    out += "end\n"
    return out


def events_condition_closed(word, closing_true, after):
    vals = [1.0 if b else 0.0 for b in word] + [3.0 if closing_true else 2.0] + [5.0] * after
    return [{"Kind": "sig", "Ts": float(i + 1), "Values": [{"Actor": "a", "Sig": "s", "Typ": 1, "Val": v}]}
            for i, v in enumerate(vals)]


def config_two_periods(names):
    out = CFG_HEAD
    for i, n in enumerate(names):
        out += "  m%d audits only while mood == 'red'\n  m%d expects %s: [a s] > 0 && t >= 0\n" % (i, i, n)
    out += "end\n"
    return out


def events_two_periods(w1, w2):
    evs, t = [], 1.0
    for w in (w1, w2):
        evs.append({"Kind": "mood", "Ts": t, "Mood": "red"})
        t += 1
        for b in w:
            evs.append({"Kind": "sig", "Ts": t, "Values": [{"Actor": "a", "Sig": "s", "Typ": 1, "Val": 1.0 if b else 0.0}]})
            t += 1
        evs.append({"Kind": "mood", "Ts": t, "Mood": "clear"})
        t += 1
    return evs


def config_for(names):
    """one auditor per modality, all judging the same scripted predicate `[a s] > 0`; the
    `t >= 0` conjunct makes the auditor sensitive to time so that the period is opened in the
    first round and closed in the final round, while the predicate is only evaluated in rounds
    that carry a sample (signal dependencies are per round)."""
    out = CFG_HEAD
    for i, n in enumerate(names):
        out += "  m%d audits throughout\n  m%d expects %s: [a s] > 0 && t >= 0\n" % (i, i, n)
    out += "end\n"
    return out


def events_for(word):
    return [{"Kind": "sig", "Ts": float(i + 1),
             "Values": [{"Actor": "a", "Sig": "s", "Typ": 1, "Val": 1.0 if b else 0.0}]}
            for i, b in enumerate(word)]


def reports_by_auditor(events):
    res = {}
    for e in events:
        if e.startswith("rep "):
            # rep <ts> "<auditor>" <result> "<output>"
            parts = e.split(" ", 4)
            aud = json.loads(parts[2])
            res.setdefault(aud, []).append(parts[3])
    return res


def wstr(word):
    return "".join("t" if b else "f" for b in word) or "-"


def run_word(impl, names, word):
    r = impl.call("audition", Args={"Parse": {"Text": config_for(names)},
                                    "Events": events_for(word), "EpochOffset": 1000.0})
    return r


def all_words(maxlen):
    res = [[]]
    frontier = [[]]
    for _ in range(maxlen):
        frontier = [w + [b] for w in frontier for b in (True, False)]
        res.extend(frontier)
    return res


def run(tier, seed):
    rep = Report(PROP, tier, seed, "proof")
    rep.assumptions = [
        "the audit driver (processFsmStateChange, label choice, reset after bad, final round) is modelled by hand "
        "(Table.fire/period) and tied by the correspondence K-C01-driver",
        "transition tables are dumped from the built code at run time (VerifAutomata) and regenerated into Gen/Tables.lean"]
    try:
        build_go()
    except BuildError as e:
        rep.obligation("K-C01 harness builds against the working tree", "K", False, e.output)
        rep.violation("harness does not build: " + e.what, {"output": e.output[-4000:],
                      "broken": "correspondence K-C01-driver (harness build)"}, nofail=True)
        return rep.finish("./check C01", "n/a")
    impl = Impl()
    automata = impl.call("automata")
    gen_tables.regenerate(automata)
    names = [a["Name"] for a in automata]
    try:
        build_driver()
    except BuildError as e:
        rep.obligation("model driver builds", "K", False, e.output)
        rep.violation("model driver does not build", {"output": e.output[-4000:], "broken": "shkdrv build"}, nofail=True)
        return rep.finish("./check C01", "n/a")
    model = Model()
    ok, info = standard_proof_step(rep, PROP, thorough=(tier == "thorough"))

    hexn = {n: hexs(n) for n in names}

    def judge_word(word, origin):
        """run one observation word through the real loop for all modalities; K + O."""
        r = run_word(impl, names, word)
        if r.get("Panicked") or r.get("harnessCrash") or r.get("Err"):
            rep.violation("audit loop failed on a scripted period", {"word": wstr(word), "result": r},
                          tags={"kind": "crash"})
            return
        reps = reports_by_auditor(r["Events"])
        for i, n in enumerate(names):
            mine = reps.get("m%d" % i, [])
            codes = ",".join(mine) or "-"
            w = wstr(word)
            mp = model.ask("C01 period %s %s" % (hexn[n], w))
            # K: compare on the property's observables only
            mcodes = [] if mp in ("-", None) else mp.split(",")
            kimpl = ("2" in mine, (mine[-1] if mine else None) == "0")
            kmod = ("2" in mcodes, (mcodes[-1] if mcodes else None) == "0")
            rep.case((n, w))
            rep.count("len=%d" % len(word))
            if kimpl != kmod:
                rep.count("K-disagree")
                rep.kdis.append({"modality": n, "word": w, "impl_reports": codes, "model_reports": mp})
            # O: the Lean specification on the real reports
            o = model.ask("C01 oracle %s %s %s" % (hexn[n], w, codes))
            if o != "ok":
                rep.count("O-fail")
                rep.ofail.append({"modality": n, "word": w, "impl_reports": codes, "oracle": o,
                                  "origin": origin, "config": config_for(names),
                                  "events": events_for(word)})
        rep.sample({"word": wstr(word), "reports": {names[i]: ",".join(reps.get("m%d" % i, [])) for i in range(len(names))}}, cap=3)

    rep.kdis = []
    rep.ofail = []

    def judge_signal_only(word):
        if not word:
            return
        for what, cfgtext in (("signal-only", config_signal_only(names)), ("signal-conditioned", config_signal_conditioned(names))):
            r = impl.call("audition", Args={"Parse": {"Text": cfgtext}, "Events": events_for(word), "EpochOffset": 1000.0})
            if r.get("Panicked") or r.get("harnessCrash") or r.get("Err"):
                rep.violation("audit loop failed on a scripted period", {"word": wstr(word), "result": r}, tags={"kind": "crash"})
                return
            reps = reports_by_auditor(r["Events"])
            for i, n in enumerate(names):
                codes = ",".join(reps.get("m%d" % i, [])) or "-"
                rep.case((n, what, wstr(word)))
                rep.count(what)
                o = model.ask("C01 oracle %s %s %s" % (hexn[n], wstr(word), codes))
                if o != "ok":
                    rep.count("O-fail")
                    rep.ofail.append({"modality": n, "word": wstr(word), "impl_reports": codes, "oracle": o,
                                      "origin": what + " predicate", "config": cfgtext, "events": events_for(word)})

    def judge_closed(word, closing_true, after):
        """a period closed by its own activation condition, before the end of the play"""
        if not word:
            return
        cfgtext = config_condition_closed(names)
        evs = events_condition_closed(word, closing_true, after)
        r = impl.call("audition", Args={"Parse": {"Text": cfgtext}, "Events": evs, "EpochOffset": 1000.0})
        if r.get("Panicked") or r.get("harnessCrash") or r.get("Err"):
            rep.violation("audit loop failed on a condition-closed period", {"word": wstr(word), "result": r}, tags={"kind": "crash"})
            return
        reps = reports_by_auditor(r["Events"])
        full = list(word) + [closing_true]
        for i, n in enumerate(names):
            codes = ",".join(reps.get("m%d" % i, [])) or "-"
            rep.case((n, "condition-closed", wstr(full), after))
            rep.count("condition-closed")
            o = model.ask("C01 oracle %s %s %s" % (hexn[n], wstr(full), codes))
            if o != "ok":
                rep.count("O-fail")
                rep.ofail.append({"modality": n, "word": wstr(full), "impl_reports": codes, "oracle": o,
                                  "origin": "period closed by its activation condition; the closing sample is the last observation",
                                  "config": cfgtext, "events": evs})

    def judge_pair(w1, w2):
        """two activation periods of the same auditors: each period is judged on its own words"""
        from . import audgen
        r = impl.call("audition", Args={"Parse": {"Text": config_two_periods(names)},
                                        "Events": events_two_periods(w1, w2), "EpochOffset": 1000.0})
        if r.get("Panicked") or r.get("harnessCrash") or r.get("Err"):
            rep.violation("audit loop failed on two scripted periods", {"words": [wstr(w1), wstr(w2)], "result": r}, tags={"kind": "crash"})
            return
        stream = audgen.parse_impl(r)["stream"]
        for i, n in enumerate(names):
            periods, cur = [], None
            for it in stream:
                if it[0] == "start" and it[1] == "m%d" % i:
                    cur = []
                elif it[0] == "stop" and it[1] == "m%d" % i and cur is not None:
                    periods.append(cur)
                    cur = None
                elif it[0] == "rep" and it[2] == "m%d" % i and cur is not None:
                    cur.append(str(it[3]))
            rep.case((n, wstr(w1), wstr(w2)))
            rep.count("two-periods")
            for k, (w, mine) in enumerate(zip((w1, w2), periods + [[], []])):
                codes = ",".join(mine) or "-"
                o = model.ask("C01 oracle %s %s %s" % (hexn[n], wstr(w), codes))
                if len(periods) != 2 or o != "ok":
                    rep.count("O-fail")
                    rep.ofail.append({"modality": n, "word": wstr(w), "impl_reports": codes, "oracle": o if len(periods) == 2 else "expected two closed periods, got %d" % len(periods),
                                      "origin": "period %d of two (%s then %s)" % (k + 1, wstr(w1), wstr(w2)),
                                      "config": config_two_periods(names), "events": events_two_periods(w1, w2)})

    # G broken?  ask the verified machinery for distinguishing words first and replay them.
    if not ok:
        for n in names:
            d = model.ask("C01 distinguish %s" % hexn[n])
            if d and (d.startswith("word ") or d.startswith("endword ")):
                w = d.split(" ")[1]
                word = [] if w == "-" else [c == "t" for c in w]
                judge_word(word, "distinguishing word for %s from the certificate search" % n)
                judge_word(word + [True, False], "extension of the distinguishing word")

    # corpus + exhaustive small words + random long words
    maxlen = 8 if tier == "quick" else 12
    for word in all_words(maxlen):
        judge_word(word, "exhaustive<=%d" % maxlen)
    for word in all_words(6 if tier == "quick" else 9):
        judge_signal_only(word)
    for word in all_words(4 if tier == "quick" else 7):
        judge_closed(word, True, len(word) % 2)
        judge_closed(word, False, (len(word) + 1) % 2)
    rng = SplitMix(seed)
    short = all_words(3 if tier == "quick" else 4)
    for w1 in short:
        judge_pair(w1, rng.pick(short))
        judge_pair(rng.pick(short), w1)
    for _ in range(40 if tier == "quick" else 400):
        L = rng.range(maxlen + 1, 200)
        p = rng.range(1, 9)
        word = [rng.below(10) < p for _ in range(L)]
        judge_word(word, "random")

    rep.obligation("K-C01-driver: real audit loop vs Table.period on (disappointed, endsGood)", "K",
                   not rep.kdis, json.dumps(rep.kdis[:3]))
    rep.obligation("O-C01: `meaning` on the real reports", "O", not rep.ofail, json.dumps(rep.ofail[:2])[:1500])

    # decide
    seen = set()
    for f in rep.ofail:
        key = f["modality"]
        if key in seen:
            continue
        seen.add(key)
        rep.violation("modality %r: real reports %s for observations %s contradict its meaning (%s)" %
                      (f["modality"], f["impl_reports"], f["word"], f["oracle"]), f,
                      tags={"modality": f["modality"], "word": f["word"]})
    if not rep.ofail:
        if not ok:
            rep.violation("proof obligations of C01 no longer check: %s" % (info["failed"] or "build"),
                          {"broken_theorems": info["failed"], "lean_output": info["output"][-3000:]}, nofail=True)
        elif rep.kdis:
            rep.violation("correspondence K-C01-driver disagrees", {"broken": "K-C01-driver", "disagreements": rep.kdis[:10]}, nofail=True)
    impl.close()
    model.close()
    return rep.finish("cd lean && lake build ShkModel.Props.C01 && lake env lean <#print axioms of each theorem>",
                      "every observation word up to length %d for each of the %d modalities through the real audit loop, plus random words up to 200; a case is (modality, word); all are distinct" % (maxlen, len(names)),
                      exhaustive=False)
