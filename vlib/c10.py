"""C10 — the printed configuration re-loads to the same play.

Claim level: PARTIAL.  The theorems of lean/ShkModel/Props/C10.lean work at the granularity of
clauses: a configuration is a list of abstract clauses, `load` is parseCfg clause by clause,
`print` is the order in which printCfg emits clauses.  print_loads (every accepted clause list:
what is printed loads, to the same titles, roles, cast, scenes, storyline, repeat settings,
audience members in the same order with the same clauses, interpretation), members_order_preserved,
sched_complete (every clause is printed, each only when the variables it uses were defined by
printed clauses) and print_fixpoint are proved for the model, for every clause list of any length.
That each printed LINE is matched by the clause regexps of parsecfg.go and is split back into the
fields the model calls a clause — white space, `escapeNl`, the expanded time-stamp groups,
Duration.String, parameter substitution, include files — is established only by the
correspondence below, on generated configurations:

  K-C10   for every generated ACCEPTED configuration (vlib/cfggen.py: role inheritance, multi-actor
          casts, multi-line commands and expressions, 3 signal kinds x 4 time-stamp groups, merged
          storylines, `+` groups, edits, repeat from/count/time, audience clauses interleaved across
          members in random order, `watches every r s` / `watches a s` / computed variables,
          measures, only helps, `expects like`, interpretation clauses incl. the shorthand,
          parameters with -D and defaults, include files): the model's `print (load L)` equals, clause
          by clause, the real Printed text parsed back into clauses (the `watches` clauses of one
          member compared as a set: their order is the iteration order of a Go map); and the
          model's member order equals the order of first mention in the real text.
  O-C10   on the real code alone: Printed1 is accepted again; Printed2 is Printed1 up to the order
          of one observer's `watches` clauses (the Lean specification `sameText`, evaluated by the
          model driver on the two real texts), with the members first mentioned in the same order;
          the compiled play (Steps, Play) and the storyline are identical; for a sample, what
          prepareDirs generates for every actor (role, `with` environment, action / spotlight /
          cleanup scripts) is identical for the original and the re-loaded configuration.
  E-C10   a sample through the real binary: `shakespeare -n -p` prints the same clauses, its
          complete output is accepted as a configuration again, and the Config stored in result.js
          by a real run is the same text as -p without comments.

The model follows the code AS REPAIRED by the fix-<n>.diff files delivered with this check
(forward uses held back by printCfg, `expects like` registering the copied variables, inherited
signal names, line continuations in expressions and free text, empty titles, stale repeat act);
the behaviour of the pinned tree is kept in the `…Old` definitions of Model/Printer.lean with
`decide`d witnesses in Props/C10.lean.
"""
import json
import os
import shutil
import tempfile

from .common import *
from . import cfggen, e2e

PROP = "C10"

HEAD = """role r
  :a echo hi
  spotlight echo x
  signal s scalar at (?P<ts_now>)(?P<scalar>\\d+)
end
cast
  bob plays r
end
"""
# fixed inputs that are replayed first on every run: one per defect found while building this check
CORPUS = [
    ("forward-use", HEAD + "audience\n  obs watches bob s\n  aud computes v as t\n  obs watches v\nend\n", []),
    ("forward-use", HEAD + "audience\n  a measures x\n  b computes v as t\n  a audits only while v > 1\n  a expects always: v < 3\nend\n", []),
    ("forward-use", "audience\n  m1 measures x\n  m2 computes v as t\n  m1 computes u as v\n  m3 watches u\n  m4 only helps\nend\n", []),
    ("expects-like", HEAD + "audience\n  z expects always: [bob s] > 2\n  y expects like z\nend\n", []),
    ("inherited-signal", HEAD + "role c extends r\n  signal s event at (?P<ts_log>)(?P<event>x)\nend\n", []),
    ("stale-repeat", HEAD + "script\n  scene a entails for bob: a\n  scene b entails for bob: a\n  storyline a\n  repeat from a\n  repeat from b\nend\n", []),
    ("multiline-text", HEAD + "audience\n  z expects always: [bob s] > 2 \\\n      && [bob s] < 5\nend\n", []),
    ("multiline-text", "title a tale \\\n  of two lines\n", []),
    ("empty-title", "title x~p~\ntitle ~p~\nattention ~p~\n", ["p="]),
    # a parameter whose value is blank but not empty
    ("blank-value", "title ~p~\nattention ~p~\nrole r\n  :a true\nend\ncast\n  bob plays r with ~p~\nend\n", ["p= "]),
    ("blank-value", "title a\ntitle ~p~\n", ["p=\t "]),
    # a parameter value that starts or ends with a blank (fix cb3d2e8)
    ("padded-value", "title ~p~\nattention see ~p~\n" + HEAD + "cast\n  carl plays r with ~q~\nend\naudience\n  m audits only while ~c~\n  m expects always: ~e~\n  m computes v as ~e~\nend\n",
     ["p= x", "q=A=1 ", "c=t > 0 ", "e= t > 1 "]),
    ("padded-value", "title ~p~\ntitle a ~p~\n", ["p= x\t"]),
    # a time stamp shorthand written twice (fix 7cd8be2)
    ("doubled-shorthand", "role r\n  spotlight tail -F log\n  signal s delta at (?P<ts_log>)(?P<ts_log>) (?P<delta>\\d+)\nend\n", []),
    ("doubled-shorthand", "role r\n  spotlight tail -F log\n  signal s scalar at (?P<ts_deltasecs>) (?P<ts_deltasecs>)? (?P<scalar>\\d+)\nend\n", []),
    # a clause whose text ends in a backslash (followed by a blank in the source, so not a continuation there)
    ("final-backslash", "role A\n  :a printf x\\\\ \nend\naudience\n  w measures C:\\ \nend\n", []),
    ("final-backslash", "title the end\\ \nauthor nobody\n", []),
]
KNOWN_PROBES = [
    ("param-value-tilde", "parameter p defaults to ~q~\ntitle hello ~p~\n", []),
    ("param-value-tilde", "title hello ~p~~\n", ["p=~x"]),
]


def classify(err, cfg_text):
    e = err or ""
    if "variable not defined" in e:
        return "forward-use"
    if "duplicate signal name" in e:
        return "inherited-signal"
    if "undefined parameter" in e:
        return "param-value-tilde"
    if "unknown syntax" in e:
        return "multiline-text" if "\\\n" in cfg_text else "final-backslash" if "\\ \n" in cfg_text else "unprintable-text"
    return "reload-rejected"


class Checker:
    def __init__(self, rep, impl, model):
        self.rep, self.impl, self.model = rep, impl, model
        self.scratch = tempfile.mkdtemp(prefix="verif-c10-")
        self.ofail = []     # O failures on the real code: (kind, detail)
        self.kdis = []      # model vs implementation

    def close(self):
        shutil.rmtree(self.scratch, ignore_errors=True)

    def parse_files(self, files, main, incdirs, defines):
        if len(files) == 1 and not incdirs:
            return self.impl.call("parse", Args={"Text": files[main], "Defines": defines, "SkipComments": True})
        d = os.path.join(self.scratch, "cfg")
        shutil.rmtree(d, ignore_errors=True)
        for fn, tx in files.items():
            os.makedirs(os.path.dirname(os.path.join(d, fn)), exist_ok=True)
            with open(os.path.join(d, fn), "w") as f:
                f.write(tx)
        return self.impl.call("parse", Args={"File": main, "IncludePath": [d] + [os.path.join(d, i) for i in incdirs],
                                             "Defines": defines, "SkipComments": True})

    def scripts_of(self, args):
        """what prepareDirs generates for every actor (role, environment, action / spotlight / cleanup
        scripts), with the scratch directory masked: an observable of 'the same roles and cast' that
        does not go through printCfg"""
        d = tempfile.mkdtemp(prefix="scr-", dir=self.scratch)
        r = self.impl.call("scripts", Args=args, DataDir=d, SubDir="run")
        shutil.rmtree(d, ignore_errors=True)
        if r.get("err") or r.get("res") is None:
            return {"error": r.get("err") or r}
        return json.loads(json.dumps(r["res"], sort_keys=True).replace(d, "<D>"))

    def same_scripts(self, what, args1, printed, replay):
        s1 = self.scripts_of(args1)
        s2 = self.scripts_of({"Text": printed})
        self.rep.count("O: generated scripts of original and re-loaded configuration compared")
        if s1 != s2:
            bad = sorted(k for k in set(s1) | set(s2) if s1.get(k) != s2.get(k))
            self.ofail.append(("scripts-differ", dict(replay, what=what, actors_that_differ=bad[:5],
                                                      original=json.dumps({k: s1.get(k) for k in bad[:1]})[:1500],
                                                      reloaded=json.dumps({k: s2.get(k) for k in bad[:1]})[:1500])))

    def oracle(self, what, files, main, defines, r1):
        """O-C10 on the real code. returns (printed1 clauses or None)"""
        replay = {"files": files, "main": main, "defines": defines}
        if r1.get("Panicked") or r1.get("harnessCrash"):
            self.ofail.append(("panic", dict(replay, what=what, panic=r1.get("Panic"))))
            return None
        r2 = self.impl.call("parse", Args={"Text": r1["Printed"], "SkipComments": True})
        if not r2.get("Ok"):
            kind = classify(r2.get("Err"), "".join(files.values()))
            self.ofail.append((kind, dict(replay, what=what, printed=r1["Printed"], reload_error=r2.get("ErrFull") or r2.get("Err") or r2.get("Panic"))))
            return None
        try:
            c1 = cfggen.parse_printed(r1["Printed"])
            c2 = cfggen.parse_printed(r2["Printed"])
        except (cfggen.PrintedSyntax, ValueError) as e:
            self.kdis.append({"what": what, "problem": "the printed text is not in the layout the check can read: %s" % e, "printed": r1["Printed"]})
            return None
        o = self.model.ask("C10 oracle-fix %s | %s" % (cfggen.clauses_tok(c1), cfggen.clauses_tok(c2)))
        if o != "ok":
            w1 = sorted(str(c) for c in c1 if c[0] == "aud" and c[2].startswith("watch"))
            w2 = sorted(str(c) for c in c2 if c[0] == "aud" and c[2].startswith("watch"))
            kind = "expects-like" if (len(w2) > len(w1) and any(c[0] == "aud" and c[2] == "like" for c in cfggen_like(files))) else "not-a-fixpoint"
            self.ofail.append((kind, dict(replay, what=what, oracle=o, printed=r1["Printed"], printed_again=r2["Printed"])))
        elif sorted(r1["Printed"].split("\n")) != sorted(r2["Printed"].split("\n")):
            # the clauses agree once parsed: the texts must also agree as printed (blanks included), line for line
            # up to the order of the lines
            l1, l2 = r1["Printed"].split("\n"), r2["Printed"].split("\n")
            self.ofail.append(("not-a-fixpoint", dict(replay, what=what, oracle="the printed lines differ",
                                                      lines_only_in_first=[l for l in l1 if l not in l2][:5],
                                                      lines_only_in_second=[l for l in l2 if l not in l1][:5],
                                                      printed=r1["Printed"], printed_again=r2["Printed"])))
        if r1["Steps"] != r2["Steps"] or r1["Play"] != r2["Play"] or r1["Story"] != r2["Story"]:
            kind = "stale-repeat" if ("REPEATING" in r1["Steps"]) != ("REPEATING" in r2["Steps"]) else "play-differs"
            self.ofail.append((kind, dict(replay, what=what, printed=r1["Printed"], steps=r1["Steps"], steps_after_reload=r2["Steps"])))
        return c1

    def model_vs_real(self, what, clauses, c1, text):
        """K-C10"""
        toks = cfggen.clauses_tok(clauses)
        m = self.model.ask("C10 print " + toks)
        if m is None or m == "bad-op" or m == "rejected":
            self.kdis.append({"what": what, "config": text, "model": m, "impl": "accepted"})
            return
        mc = [cfggen.erase_vars(c) for c in cfggen.parse_clauses_tok(m)]
        rc = [cfggen.erase_vars(c) for c in c1]
        if split_watches(mc) != split_watches(rc):
            a, b = split_watches(rc), split_watches(mc)
            first = next(((x, y) for x, y in zip(a[0], b[0]) if x != y), None)
            self.kdis.append({"what": what, "config": text, "first_difference (impl, model)": first,
                              "lengths": [len(a[0]), len(b[0])], "watches_impl": a[1], "watches_model": b[1]})
            return
        if mc != rc:
            self.rep.count("watches of one member in another order than the model's (map iteration)")
        mm = self.model.ask("C10 members " + toks)
        real_members = []
        for c in c1:
            if c[0] == "aud" and c[1] not in real_members:
                real_members.append(c[1])
        if mm != (",".join(hexs(x) for x in real_members) or "-"):
            self.kdis.append({"what": what, "config": text, "members_model": mm, "members_impl": real_members})


def cfggen_like(files):
    """the audience clauses `expects like` of a configuration text (cheap textual test)"""
    res = []
    for t in files.values():
        if " like " in t or "\tlike" in t:
            res.append(("aud", "", "like"))
    return res


def split_watches(cs):
    nw = [c for c in cs if not (c[0] == "aud" and c[2] in ("watchsig", "watchvar"))]
    w = {}
    for c in cs:
        if c[0] == "aud" and c[2] in ("watchsig", "watchvar"):
            w.setdefault(c[1], []).append(str(c))
    return nw, {k: sorted(v) for k, v in w.items()}


RUN_CFG = """title a short play
role r
  :a echo one >>log.$i; \\
     echo two >>log.$i
  spotlight echo 'x 5'
  signal s scalar at (?P<ts_now>)x (?P<scalar>\\d+)
end
cast
  w* play 2 r with A=1
end
script
  tempo 10ms
  scene a entails for every r: a
  storyline a .a
end
audience
  obs watches w1 s
  aud computes v as t
  obs watches v
  late expects always: t >= 0 \\
      || t < 0
  other expects like late
end
"""


def run(tier, seed):
    rep = Report(PROP, tier, seed, "proof")
    rep.assumptions = [
        "claim level partial: the theorems are about clause lists; that a printed line is matched by the clause regexps and split into the same fields is shown by K-C10/O-C10 on generated configurations only",
        "Go's regexp (clause grammar, `repeat from`, `edit`), govaluate (which variables an expression mentions), time.ParseDuration/Duration.String are not modelled: an expression travels with the list of its variables, a `repeat from` match is an oracle parameter of the model",
        "identifiers are ASCII/letter-like words; parameter values are non-empty and contain no tilde (see the known finding)"]
    try:
        build_go()
        build_driver()
    except BuildError as e:
        rep.obligation("build", "K", False, e.output)
        rep.violation("build failed: " + e.what, {"output": e.output[-4000:], "broken": "K-C10 (build)"}, nofail=True)
        return rep.finish("./check C10", "n/a")
    impl, model = Impl(), Model()
    ok, info = standard_proof_step(rep, PROP, thorough=(tier == "thorough"))
    rng = SplitMix(seed)
    ck = Checker(rep, impl, model)

    # ---- corpus: the inputs of the defects found, first -------------------------------------------
    for kind, text, defines in CORPUS:
        r1 = impl.call("parse", Args={"Text": text, "Defines": defines, "SkipComments": True})
        rep.case(("corpus", text))
        rep.count("corpus:" + kind)
        if not r1.get("Ok"):
            if r1.get("Panicked"):
                ck.ofail.append(("panic", {"config": text, "panic": r1.get("Panic")}))
            rep.count("corpus: rejected at the first load (outside the quantifier)")
            continue
        n0 = len(ck.ofail)
        ck.oracle("corpus input for " + kind, {"main.cfg": text}, "main.cfg", defines, r1)
        for i in range(n0, len(ck.ofail)):       # the corpus knows what it is looking at
            ck.ofail[i] = (kind, ck.ofail[i][1])
    known_seen = []
    for kind, text, defines in KNOWN_PROBES:
        r1 = impl.call("parse", Args={"Text": text, "Defines": defines, "SkipComments": True})
        rep.count("known-finding probe")
        if r1.get("Ok"):
            n0 = len(ck.ofail)
            ck.oracle("probe", {"main.cfg": text}, "main.cfg", defines, r1)
            for i in range(n0, len(ck.ofail)):
                ck.ofail[i] = (kind, ck.ofail[i][1])

    # ---- generated configurations --------------------------------------------------------------
    n = 1500 if tier == "quick" else 18000
    rejected = []
    ldis = []
    sample_done = False
    e2e_cases = []
    for i in range(n):
        g = cfggen.generate(rng.fork())
        text = g["files"][g["main"]]
        r1 = ck.parse_files(g["files"], g["main"], g["incdirs"], g["defines"])
        key = json.dumps([g["files"], g["defines"]], sort_keys=True)
        rep.case(key, nontrivial=len(g["clauses"]) >= 3)
        if not r1.get("Ok"):
            rejected.append({"config": g["files"], "defines": g["defines"], "error": r1.get("ErrFull") or r1.get("Panic")})
            m = model.ask("C10 print " + cfggen.clauses_tok(g["clauses"]))
            if m != "rejected":
                ck.kdis.append({"what": "generated configuration rejected by the implementation, accepted by the model",
                                "config": g["files"], "defines": g["defines"], "impl": r1.get("Err")})
            continue
        for f in g["features"]:
            rep.count(f)
        rep.count("members=%d" % min(len(g["members"]), 6))
        c1 = ck.oracle("generated", g["files"], g["main"], g["defines"], r1)
        if c1 is not None and i % 6 == 0 and len(g["files"]) == 1:
            ck.same_scripts("generated", {"Text": text, "Defines": g["defines"]}, r1["Printed"],
                            {"files": g["files"], "main": g["main"], "defines": g["defines"]})
        if c1 is not None and i % 3 == 0:
            # K-C10l: every printed clause line that a template clause regexp matches is the rendering of its own
            # fields (keywords and fields separated by single blanks): the lines theorem printed_clause_line_parses is about
            rl = impl.call("readLines", Text=r1["Printed"].encode("utf-8").hex())
            for hl in rl.get("lines") or []:
                a = model.ask("C10 tpl x" + hl)
                for hit in (a or "").split(" "):
                    if hit.endswith(":ok"):
                        rep.count("clause line = template rendering: " + hit[:-3])
                    elif hit.endswith(":notimage"):
                        ldis.append({"line": bytes.fromhex(hl).decode("utf-8", "replace"), "template": hit[:-9], "config": g["files"]})
                    elif hit not in ("-", ""):
                        ldis.append({"line": bytes.fromhex(hl).decode("utf-8", "replace"), "model": a})
        if c1 is not None:
            ck.model_vs_real("generated", g["clauses"], c1, g["files"])
            pm = model.ask("C10 printold " + cfggen.clauses_tok(g["clauses"]))
            if pm != model.ask("C10 print " + cfggen.clauses_tok(g["clauses"])):
                rep.count("configurations on which the repaired and the pinned model differ (forward use / expects like / stale repeat)")
        if not sample_done and len(g["clauses"]) > 8 and "include" in g["features"]:
            rep.sample({"generated_files": g["files"], "defines": g["defines"], "printed": r1["Printed"]})
            sample_done = True
        if len(e2e_cases) < (10 if tier == "quick" else 60) and i % 7 == 0:
            e2e_cases.append((g, r1))
    rep.count("generated configurations rejected at the first load", len(rejected))

    # ---- K-C10-param: -D beats the default, the first definition wins -------------------------------
    pdis = []
    for _ in range(150 if tier == "quick" else 2000):
        names = ["a", "b", "n1"]
        defines = [(rng.pick(names), "d%d" % rng.below(9)) for _ in range(rng.range(0, 3))]
        defaults = [(rng.pick(names), "f%d x" % rng.below(9)) for _ in range(rng.range(0, 4))]
        known = [k for k, _ in defines + defaults]
        if not known:
            continue
        nm = rng.pick(known)
        text = "".join("parameter %s defaults to %s\n" % kv for kv in defaults) + "title v=~%s~\n" % nm
        r = impl.call("parse", Args={"Text": text, "Defines": ["%s=%s" % kv for kv in defines], "SkipComments": True})
        tbl = lambda l: ",".join("%s:%s" % (hexs(k), hexs(v)) for k, v in l) or "-"
        m = model.ask("C10 param %s %s %s" % (hexs(nm), tbl(defines), tbl(defaults)))
        rep.case(("param", text, json.dumps(defines)))
        rep.count("parameter table: %s" % ("-D and default for the name" if any(k == nm for k, _ in defines) and any(k == nm for k, _ in defaults)
                                           else "-D only" if any(k == nm for k, _ in defines) else "defaults only"))
        got = None
        if r.get("Ok"):
            first = r["Printed"].split("\n")[0]
            got = first[len("title v="):] if first.startswith("title v=") else None
        if m in (None, "-", "bad-op") or got is None or unhex(m) != got:
            pdis.append({"config": text, "defines": defines, "impl_first_line": r.get("Printed", r.get("Err"))[:80], "model": m})
    # ---- K-C10t / O-C10t: the text layer — escapeNl against the reader's continuation lines ----------------
    tdis, tfail = [], []
    TEXT_CORPUS = [b"x\\", b"\\", b"a\\\nb", b"a\nb\\", b"a\\\\", b"", b"a\n\nb", b"a \\ ", b"\\\n\\", b"C:\\"]
    pres = [b"  :a ", b"title ", b"  w measures ", b"  z expects always: ", b"  cleanup ", b"attention "]
    for i in range(len(TEXT_CORPUS) + (400 if tier == "quick" else 6000)):
        if i < len(TEXT_CORPUS):
            t = TEXT_CORPUS[i]
        else:
            t = bytes(rng.pick([97, 98, 32, 92, 92, 10, 10, 9, 58, 35, 126]) for _ in range(rng.range(0, 12)))
        pre = pres[i % len(pres)] if i < len(TEXT_CORPUS) else rng.pick(pres)
        rest = rng.pick([b"end\n", b"end\n", b"end", b"", b"next \\\nline\nend\n"])
        r = impl.call("escapeRead", Pre=pre.hex(), T=t.hex(), Rest=rest.hex())
        m = model.ask("C10 esc %s %s %s" % (hexs(pre), hexs(t), hexs(rest)))
        rep.case(("text", pre, t, rest))
        rep.count("text: %s%s" % ("ends in a backslash" if t.endswith(b"\\") else "other ending", ", multi-line" if b"\n" in t else ""))
        mt = (m or "").split(" ")
        lines = r.get("lines") or []
        got = "x%s %s" % (r.get("esc"), ("x%s %d" % (lines[0], (r["starts"][1] - 1) if len(lines) > 1 else -1)) if lines else "eof" if r.get("err") else "none")
        if len(mt) == 3 and len(lines) == 1:
            mt[2] = "-1"        # nothing follows: the number of lines consumed is not observable
        if " ".join(mt) != got:
            tdis.append({"pre": pre.decode(), "text": t.decode("latin-1"), "rest": rest.decode(), "impl": got, "model": m, "err": r.get("err")})
        # the property: the clause read back is the clause printed, and the following clause is still there
        want = (pre + t).strip(b" \t\n\r\v\f")
        if r.get("err") or not lines or bytes.fromhex(lines[0]) != want or (rest.startswith(b"end") and (len(lines) < 2 or bytes.fromhex(lines[1]) != b"end")):
            tfail.append({"pre": pre.decode(), "text": t.decode("latin-1"), "rest": rest.decode(), "printed": bytes.fromhex(r.get("esc") or "").decode("latin-1"),
                          "read_back": [bytes.fromhex(l).decode("latin-1") for l in lines], "err": r.get("err")})
    # ---- E-C10: the real binary -------------------------------------------------------------------
    plays = []
    for g, r1 in e2e_cases:
        args = ["-n", "-p"]
        for d in g["defines"]:
            args += ["-D", d]
        for inc in g["incdirs"]:
            args += ["-I", inc]
        extra = {k: v for k, v in g["files"].items() if k != g["main"]}
        plays.append(e2e.Play(g["files"][g["main"]], args=args, extra_files=extra, timeout=60, cfg_name=g["main"]))
    plays.append(e2e.Play(RUN_CFG, args=[], timeout=90))
    results = e2e.run_many(plays, workers=8)
    efail = []
    for (g, r1), r in zip(e2e_cases, results[:-1]):
        rep.case(("e2e", json.dumps(g["files"], sort_keys=True)))
        rep.count("e2e: shakespeare -n -p")
        if r["rc"] != 0 or r["timed_out"]:
            efail.append({"problem": "shakespeare -n -p failed on an accepted configuration", "rc": r["rc"], "stderr": (r["stderr"] or "")[-800:], "config": g["files"], "defines": g["defines"]})
            continue
        try:
            cb = cfggen.parse_printed(r["stdout"])
            ch = cfggen.parse_printed(r1["Printed"])
        except (cfggen.PrintedSyntax, ValueError) as e:
            efail.append({"problem": "output of -p is not readable: %s" % e, "stdout": r["stdout"][-1500:]})
            continue
        if split_watches(cb) != split_watches(ch):
            efail.append({"problem": "-p of the binary and the in-process printCfg differ", "config": g["files"], "stdout": r["stdout"][-2000:], "in_process": r1["Printed"][-2000:]})
        r2 = impl.call("parse", Args={"Text": r["stdout"], "SkipComments": True})
        if not r2.get("Ok"):
            efail.append({"problem": "the complete output of -n -p (with comments and the compiled play) is not accepted as a configuration",
                          "error": r2.get("ErrFull") or r2.get("Panic"), "stdout": r["stdout"][-2000:]})
    # the configuration read from standard input (the default when no file is named) and printed with -n -p
    import subprocess
    for g, r1 in e2e_cases[:3]:
        if len(g["files"]) != 1 or g["incdirs"]:
            continue
        argv = ["-n", "-p"] + [x for d in g["defines"] for x in ("-D", d)]
        prc = subprocess.run([e2e.BIN] + argv, input=g["files"][g["main"]], capture_output=True, text=True, timeout=30, cwd="/tmp")
        rep.count("e2e: shakespeare -n -p < configuration")
        r2 = impl.call("parse", Args={"Text": prc.stdout, "SkipComments": True})
        if prc.returncode != 0 or not r2.get("Ok"):
            efail.append({"problem": "the output of `shakespeare -n -p` reading the configuration from standard input is not accepted as a configuration",
                          "error": (r2.get("ErrFull") or r2.get("Panic") or prc.stderr)[:600], "stdout": prc.stdout[:400], "config": g["files"], "defines": g["defines"]})
    # bytes that are no UTF-8 text: a run stores its Config as JSON, which cannot carry them, so whatever is accepted
    # must survive being printed by -n -p, written to a file as UTF-8 JSON would (U+FFFD for a stray byte) and loaded
    for b in (0xe9, 0xc0, 0xaa, 0xff):
        cfgb = (b"role r\n  :a true\nend\ncast\n  bob plays r\nend\nscript\n  tempo 10ms\n  scene " + bytes([b]) +
                b" entails for bob: a\n  storyline " + bytes([b]) + b"\nend\n")
        dd = tempfile.mkdtemp(prefix="c10b-", dir=ck.scratch)
        with open(os.path.join(dd, "l1.cfg"), "wb") as f:
            f.write(cfgb)
        p1 = subprocess.run([e2e.BIN, "-n", "-p", "-q", "l1.cfg"], capture_output=True, timeout=30, cwd=dd)
        rep.count("e2e: stray byte 0x%02x as scene shorthand: %s" % (b, "rejected" if p1.returncode else "accepted"))
        rep.case(("e2e-bytes", b))
        if p1.returncode == 0:
            asjson = json.loads(json.dumps(p1.stdout.decode("utf-8", "replace")))
            with open(os.path.join(dd, "l2.cfg"), "w", encoding="utf-8") as f:
                f.write(asjson)
            p2 = subprocess.run([e2e.BIN, "-n", "-p", "-q", "l2.cfg"], capture_output=True, timeout=30, cwd=dd)
            if p2.returncode != 0:
                efail.append({"problem": "a configuration with the stray byte 0x%02x as a scene shorthand is accepted, but what a run stores of it "
                                         "(Config in result.js: JSON, the byte becomes U+FFFD) does not load" % b,
                              "config_bytes_hex": cfgb.hex(), "error": p2.stderr.decode("utf-8", "replace")[-400:]})
    rr = results[-1]
    rep.count("e2e: one real run (result.js Config)")
    hp = impl.call("parse", Args={"Text": RUN_CFG, "SkipComments": True})
    if rr["rc"] != 0 or rr["result"] is None:
        efail.append({"problem": "the real run failed", "rc": rr["rc"], "stderr": (rr["stderr"] or "")[-1500:]})
    elif not hp.get("Ok") or rr["result"].get("Config") != hp["Printed"]:
        efail.append({"problem": "result.js Config differs from the configuration printed without comments",
                      "result_js": rr["result"].get("Config"), "in_process": hp.get("Printed")})
    else:
        r2 = impl.call("parse", Args={"Text": rr["result"]["Config"], "SkipComments": True})
        if not r2.get("Ok") or r2["Printed"] != hp["Printed"] or r2["Steps"] != hp["Steps"]:
            efail.append({"problem": "the Config stored in result.js does not load to the same configuration",
                          "error": r2.get("Err"), "config": rr["result"]["Config"]})
        rep.sample({"real_run_config_in_result_js": rr["result"]["Config"], "ConfigHash": rr["result"].get("ConfigHash")})

    # ---- obligations and verdict ---------------------------------------------------------------
    kinds = {}
    for k, d in ck.ofail:
        kinds.setdefault(k, []).append(d)
    known_kinds = {k for k in kinds if rep.match_known({"kind": k}) is not None}
    rep.obligation("O-C10: the printed text of %d accepted configurations is accepted again, prints the same text up to watches order (Lean spec sameText), same members order, same compiled play%s" % (rep.evaluations, "; the probe inputs of the known finding(s) %s excepted (they fail as recorded)" % ", ".join(sorted(known_kinds)) if known_kinds else ""),
                   "O", not (set(kinds) - known_kinds), json.dumps({k: len(v) for k, v in kinds.items() if k not in known_kinds}))
    rep.obligation("K-C10: model print(load L) = real printed text, clause by clause; same member order", "K", not ck.kdis,
                   json.dumps(ck.kdis[:2], default=str)[:1800])
    rep.obligation("K-C10-param: substituted value = lookupP (pVars defines defaults) (theorem defines_precedence)", "K", not pdis,
                   json.dumps(pdis[:2], default=str)[:1200])
    tn = (model.ask("C10 tplnames") or "").split()
    rep.count("clause regexps of the current source that are templates (of %d)" % 33, len(tn))
    rep.sample({"template_clause_regexps": tn})
    rep.obligation("K-C10l: printed clause lines matched by a template clause regexp are renderings of their template (the lines of theorem printed_clause_line_parses)", "K", not ldis,
                   json.dumps(ldis[:2], default=str)[:1200])
    rep.obligation("K-C10t: escapeNl and the reader's joining of continuation lines = model (Escape.escapeNl, Reader.gather) on generated texts", "K", not tdis,
                   json.dumps(tdis[:2], default=str)[:1200])
    rep.obligation("O-C10t: a clause text printed through escapeNl is read back as the same clause, and the next clause is still read (theorem escaped_text_reads_back)", "O", not tfail,
                   json.dumps(tfail[:2], default=str)[:1200])
    rep.obligation("K-C10-gen: every generated configuration is accepted by the implementation (generator = documented syntax)", "K",
                   not rejected, json.dumps(rejected[:2], default=str)[:1500])
    rep.obligation("E-C10: -n -p of the binary and result.js Config (%d plays)" % len(plays), "O", not efail, json.dumps(efail[:2], default=str)[:1800])
    for k, ds in kinds.items():
        d = ds[0]
        rep.violation("the printed configuration does not load to the same play (%s; %d inputs)" % (k, len(ds)),
                      dict(d, failing_inputs=len(ds)), tags={"kind": k})
    for f in efail[:3]:
        rep.violation(f["problem"], f, tags={"kind": "e2e"})
    if tfail:
        rep.violation("a clause text printed by printCfg is not read back as printed", dict(tfail[0], failing_inputs=len(tfail)), tags={"kind": "text-layer"})
    if not (set(kinds) - known_kinds) and not efail and not tfail:
        if not ok:
            rep.violation("proof obligations of C10 no longer check", {"broken_theorems": info["failed"], "lean_output": info["output"][-3000:]}, nofail=True)
        elif ck.kdis or pdis or tdis or ldis:
            rep.violation("correspondence K-C10 disagrees", {"broken": "K-C10", "disagreements": (ck.kdis + pdis + tdis + ldis)[:5]}, nofail=True)
        elif rejected:
            rep.violation("generated configurations of the documented syntax are rejected", {"broken": "K-C10-gen", "rejected": rejected[:5]}, nofail=True)
    ck.close()
    impl.close()
    model.close()
    return rep.finish("cd lean && lake build ShkModel.Props.C10 && #print axioms",
                      "configurations generated from the documented syntax by vlib/cfggen.py (distinct = distinct (files, -D list); non-trivial = at least 3 clauses), "
                      "each loaded, printed, loaded again and printed again in-process; the corpus of the defects found is replayed first; a sample goes through the real binary")


def replay(path):
    d = json.load(open(path))
    build_go()
    build_driver()
    impl, model = Impl(), Model()
    rep = Report(PROP, "quick", 0, "proof")
    ck = Checker(rep, impl, model)
    r = d.get("replay", {})
    rc = 0
    if "files" in r:
        r1 = ck.parse_files(r["files"], r.get("main", "main.cfg"), [], r.get("defines", []))
        print("first load:", "accepted" if r1.get("Ok") else r1.get("Err"))
        if r1.get("Ok"):
            ck.oracle("replay", r["files"], r.get("main", "main.cfg"), r.get("defines", []), r1)
            for k, dd in ck.ofail:
                print("STILL FAILS (%s): %s" % (k, dd.get("reload_error") or dd.get("oracle") or "compiled play differs"))
                rc = 1
            if not ck.ofail:
                print("the printed configuration loads to the same play now")
    ck.close()
    impl.close()
    model.close()
    return rc
