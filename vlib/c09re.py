"""The clause regexps of pkg/cmd/parsecfg.go inside the Lean model (library used by vlib/c09.py).

G-RE   theorems of lean/ShkModel/Props/Regex.lean (namespace Shk.ReProps), re-elaborated over the
       table regenerated from the Go source by vlib/regen_re.py: soundness and completeness of the
       matcher for every regexp and string, FindStringSubmatch = whole-string match for anchored
       regexps, and the table facts (all_in_class, anchored_all, well_numbered_all, keywords …).
K-RE   for every regexp of the table: lines (sampled from the regexp's own syntax tree, taken from
       the grammar-derived configurations of C09, and mutated: dropped / doubled / swapped / merged
       tokens, other blanks, newlines inside, non-ASCII letters, invalid UTF-8, near-miss keywords,
       truncations) -> Go regexp.FindStringSubmatchIndex on the source literal (harness op
       `rematch`) against the Lean matcher (`RE match`): match / no match and every span.
O-C09-syntax  every generated single clause inside its section: when no regexp of the section's
       dispatch chain (read off the parse functions by the translator) matches the line, the real
       loader must reject the file with "unknown syntax" positioned at that line; when one matches,
       it must not answer "unknown syntax" there (so: accepted => some regexp matches)."""
import json
import os

from .common import *
from .cfgread import hx, parse_diag, clause_source

# section -> (function whose body holds the dispatch chain, opener line)
SECTIONS = {
    "top": ("parseCfg", None),
    "role": ("parseRole", b"role zz9"),
    "cast": ("parseActors", b"cast"),
    "script": ("parseScript", b"script"),
    "audience": ("parseAudience", b"audience"),
    "interpretation": ("parseInterpretation", b"interpretation"),
}
TOP_PREFIXES = (b"title ", b"attention ", b"author ")

# the leading words of the clauses docs/manual.md documents, per section (an expectation that does
# NOT come from the regenerated table: a line that lacks them is not a clause of the section)
DOC_FIRST = {
    "top": {b"title", b"author", b"attention", b"parameter", b"role", b"cast", b"script", b"audience", b"interpretation", b"include"},
    "role": {b"spotlight", b"cleanup", b"signal"},
    "script": {b"tempo", b"repeat", b"scene", b"storyline", b"edit"},
    "interpretation": {b"ignore", b"foul", b"require"},
}
DOC_SECOND = {
    "audience": {b"watches", b"measures", b"audits", b"collects", b"computes", b"expects", b"only"},
    "cast": {b"plays", b"play"},
}


def documented_shape(sec, t):
    """False when the line cannot be a documented clause of the section (its first / second
    blank-separated word is not one of the section's words); True = no opinion"""
    toks = [w for w in re.split(rb"[\t\n\f\r ]+", t) if w]
    if sec in DOC_FIRST:
        if sec == "role" and t.startswith(b":"):
            return True
        return bool(toks) and toks[0] in DOC_FIRST[sec]
    return len(toks) >= 2 and toks[1] in DOC_SECOND[sec]


GO_SPACES = [c.encode("utf-8") for c in
             "\t\n\v\f\r \u0085\u00a0\u1680\u2000\u2001\u2002\u2003\u2004\u2005\u2006\u2007\u2008\u2009\u200a\u2028\u2029\u202f\u205f\u3000"]


def go_trim_space(b):
    """strings.TrimSpace on bytes"""
    again = True
    while again:
        again = False
        for sp in GO_SPACES:
            if b.startswith(sp):
                b, again = b[len(sp):], True
            if b.endswith(sp):
                b, again = b[:-len(sp)], True
    return b


# ---------------------------------------------------------------------------------------------
# lines sampled from the syntax tree of a regexp
# ---------------------------------------------------------------------------------------------
PALETTE = [ord(c) for c in "azAZ_09bobx"] + [0xE9, 0xDF, 0x65E5, 0x3A9, 0x2B, 0x24, 0x5E, 0x7C, 0x7E, 0x3C, 0x3D, 0xA9, 0xD7,
                                            0x301, 0x96B, 0xB2, 0x2D, 0x2E, 0x3A, 0x2A, 0x2F, 0x27, 0x28, 0x1F600, 0xFFFD, 0x10FFFF,
                                            0x20, 0x20, 0x20, 0x9, 0xA, 0xC, 0xD, 0xB, 0xA0, 0x85, 0x0]
LETTERS = [ord(c) for c in "abcdxyzt"]


def in_ranges(rs, c):
    return any(lo <= c <= hi for lo, hi in rs)


def enc(c):
    if 0xD800 <= c <= 0xDFFF:
        return b"\xef\xbf\xbd"
    return chr(c).encode("utf-8")


def sample(node, rng, out):
    """append to `out` (list of bytes) a string that the regexp `node` matches"""
    op = node["op"]
    subs = node.get("subs", [])
    if op == "lit":
        out.append("".join(chr(r) for r in node["runes"]).encode("utf-8"))
    elif op == "cls":
        rs = node["ranges"]
        cand = [c for c in (LETTERS if rng.chance(3, 4) else PALETTE) if in_ranges(rs, c)]
        if not cand:
            cand = [c for c in PALETTE if in_ranges(rs, c)]
        if not cand:
            lo, hi = rng.pick(rs)
            cand = [lo, hi]
        out.append(enc(rng.pick(cand)))
    elif op == "any":
        out.append(enc(rng.pick(LETTERS + PALETTE)))
    elif op == "anyNoNL":
        out.append(enc(rng.pick([c for c in LETTERS + PALETTE if c != 10])))
    elif op == "cat":
        for s in subs:
            sample(s, rng, out)
    elif op == "alt":
        sample(rng.pick(subs), rng, out)
    elif op == "star":
        for _ in range(rng.pick([0, 0, 1, 1, 2, 3, 6])):
            sample(subs[0], rng, out)
    elif op == "plus":
        for _ in range(rng.pick([1, 1, 1, 2, 3, 6])):
            sample(subs[0], rng, out)
    elif op == "opt":
        if rng.chance(1, 2):
            sample(subs[0], rng, out)
    elif op == "group":
        sample(subs[0], rng, out)
    # empty, bot, eot: nothing


def literals_of(node, acc):
    if node["op"] == "lit" and len(node["runes"]) > 1:
        acc.append("".join(chr(r) for r in node["runes"]).encode("utf-8"))
    for s in node.get("subs", []):
        literals_of(s, acc)
    return acc


# ---------------------------------------------------------------------------------------------
# mutations of one line
# ---------------------------------------------------------------------------------------------
SEPS = [b" ", b"  ", b"\t", b"\n", b" \n   ", b"\f", b"\r", b"\v", b"\xc2\xa0", b"\xc2\x85", b" \t "]
ODD = [b"\xc3\xa9", b"\xe6\x97\xa5", b"\xf0\x9f\x98\x80", b"\xff", b"\xc3", b"\xed\xa0\x80", b"\xc0\xaf", b"\xf4\x90\x80\x80",
       b"\xe2\x82", b"\x00", b"~", b"~p~", b":", b"*", b"\\", b"\xcc\x81", b"\xef\xbf\xbd"]


def split_tokens(line):
    """tokens and the separators between them: line == seps[0] + toks[0] + seps[1] + ... + seps[n]"""
    toks, seps = [], [b""]
    for ch in (line[i:i + 1] for i in range(len(line))):
        if ch in b" \t\n\f\r":
            if len(seps) == len(toks):
                seps.append(b"")
            seps[-1] += ch
        else:
            if len(toks) < len(seps):
                toks.append(b"")
            toks[-1] += ch
    if len(seps) == len(toks):
        seps.append(b"")
    return toks, seps


def join_tokens(toks, seps):
    out = seps[0]
    for i, t in enumerate(toks):
        out += t + seps[i + 1]
    return out


MUTATIONS = ["drop-token", "double-token", "swap-tokens", "merge-tokens", "other-blank", "extra-blank", "newline-inside",
             "non-ascii", "invalid-utf8", "near-miss-keyword", "truncate", "junk-before", "junk-after", "blank-ends",
             "empty-token", "colon-spacing", "upper-case", "split-token"]


def mutate_line(rng, line, keywords):
    k = rng.pick(MUTATIONS)
    toks, seps = split_tokens(line)
    n = len(toks)
    if k == "drop-token" and n:
        i = rng.below(n)
        del toks[i]
        del seps[i + 1 if i + 1 < len(seps) - 1 else i]
        return join_tokens(toks, seps), k
    if k == "double-token" and n:
        i = rng.below(n)
        toks.insert(i, toks[i])
        seps.insert(i + 1, b" ")
        return join_tokens(toks, seps), k
    if k == "swap-tokens" and n > 1:
        i = rng.below(n - 1)
        toks[i], toks[i + 1] = toks[i + 1], toks[i]
        return join_tokens(toks, seps), k
    if k == "merge-tokens" and n > 1:
        i = 1 + rng.below(n - 1)
        seps[i] = b""
        return join_tokens(toks, seps), k
    if k == "other-blank" and n > 1:
        seps[1 + rng.below(n - 1)] = rng.pick(SEPS)
        return join_tokens(toks, seps), k
    if k == "extra-blank" and n > 1:
        i = 1 + rng.below(n - 1)
        seps[i] = seps[i] + rng.pick([b" ", b"\t", b"  \t", b"\n"])
        return join_tokens(toks, seps), k
    if k == "newline-inside" and n > 1:
        seps[1 + rng.below(n - 1)] = rng.pick([b"\n", b"\n  ", b" \n", b"\n\n"])
        return join_tokens(toks, seps), k
    if k == "non-ascii" and n:
        i = rng.below(n)
        p = rng.below(len(toks[i]) + 1)
        toks[i] = toks[i][:p] + rng.pick(ODD[:3] + [b"\xcc\x81", b"\xc3\x9f"]) + toks[i][p:]
        return join_tokens(toks, seps), k
    if k == "invalid-utf8":
        p = rng.below(len(line) + 1)
        return line[:p] + rng.pick(ODD) + line[p:], k
    if k == "near-miss-keyword":
        idx = [i for i, t in enumerate(toks) if t in keywords]
        if idx:
            i = rng.pick(idx)
            t = toks[i]
            how = rng.below(5)
            if how == 0:
                t = t[:-1]
            elif how == 1:
                t = t + t[-1:]
            elif how == 2:
                t = t[:1].upper() + t[1:]
            elif how == 3 and len(t) > 2:
                t = t[:1] + t[2:1:-1] + t[3:]
            else:
                t = t + b"s"
            toks[i] = t
            return join_tokens(toks, seps), k
    if k == "truncate" and line:
        return line[:rng.below(len(line))], k
    if k == "junk-before":
        return rng.pick([b"x", b"x ", b"#", b": ", b"the "]) + line, k
    if k == "junk-after":
        return line + rng.pick([b" junk", b"x", b" #", b":", b" \\"]), k
    if k == "blank-ends":
        return rng.pick([b" ", b"\t", b"\n", b""]) + line + rng.pick([b" ", b"\t ", b"\n", b"\xc2\xa0"]), k
    if k == "empty-token" and n:
        i = rng.below(n)
        toks[i] = b""
        return join_tokens(toks, seps), k
    if k == "colon-spacing" and b":" in line:
        p = line.index(b":")
        return line[:p].rstrip(b" ") + rng.pick([b":", b" :", b": ", b"  :  ", b"\t:\n", b"::"]) + line[p + 1:].lstrip(b" "), k
    if k == "upper-case" and n:
        i = rng.below(n)
        toks[i] = toks[i].upper()
        return join_tokens(toks, seps), k
    if k == "split-token" and n:
        i = rng.below(n)
        if len(toks[i]) > 1:
            p = 1 + rng.below(len(toks[i]) - 1)
            toks[i] = toks[i][:p] + b" " + toks[i][p:]
        return join_tokens(toks, seps), k
    return line, "none"


# ---------------------------------------------------------------------------------------------
# grammar-derived lines, by section
# ---------------------------------------------------------------------------------------------
def logical_lines_by_section(phys):
    """physical lines of one generated configuration -> [(section, logical line as the parser sees it)]"""
    res = []
    cur = b""
    logical = []
    for l in phys:
        if l.endswith(b"\\"):
            cur += l[:-1] + b"\n"
            continue
        logical.append(cur + l)
        cur = b""
    sec = "top"
    for l in logical:
        t = go_trim_space(l)
        if not t or t.startswith(b"#") or t.startswith(b"include "):
            continue
        if sec == "top":
            res.append(("top", t))
            if t.startswith(b"role "):
                sec = "role"
            elif t in (b"cast", b"script", b"audience", b"interpretation"):
                sec = t.decode()
        elif t == b"end":
            sec = "top"
        else:
            res.append((sec, t))
    return res


class Table:
    def __init__(self, tbl):
        self.tbl = tbl
        self.res = {e["name"]: e for e in tbl["regexps"]}
        self.names = [e["name"] for e in tbl["regexps"]]
        self.uses = {u["func"]: u["res"] for u in tbl["uses"]}
        self.chain = {}
        for sec, (fn, _) in SECTIONS.items():
            self.chain[sec] = list(self.uses.get(fn, []))
        self.home = {}
        for sec, names in self.chain.items():
            for n in names:
                self.home.setdefault(n, sec)
        kw = set()
        for e in tbl["regexps"]:
            for lit in literals_of(e["tree"], []):
                kw.update(lit.split())
        self.keywords = kw


# ---------------------------------------------------------------------------------------------
# K-RE
# ---------------------------------------------------------------------------------------------
def parse_model_answer(a):
    if a == "none":
        return None
    if a is None or not a.startswith("some "):
        return "bad:" + str(a)
    out = []
    for p in a[5:].split(","):
        if p == "-":
            out += [-1, -1]
        else:
            x, y = p.split(":")
            out += [int(x), int(y)]
    return out


def run_pairs(rep, impl, model, T, pairs):
    """pairs: [(regexp name, line bytes, origin)] -> list of disagreements"""
    dis = []
    by = {}
    for i, (n, l, _) in enumerate(pairs):
        by.setdefault(n, []).append(i)
    go = [None] * len(pairs)
    for n, idx in by.items():
        expr = T.res[n]["wrapped"].encode("utf-8").hex()
        for c in range(0, len(idx), 400):
            chunk = idx[c:c + 400]
            r = impl.call("rematch", Expr=expr, Lines=[pairs[i][1].hex() for i in chunk])
            if "res" not in r:
                dis.append({"regexp": n, "what": "the real regexp package did not answer", "answer": json.dumps(r)[:300]})
                continue
            if r["numSubexp"] != T.res[n]["numcap"]:
                dis.append({"regexp": n, "what": "number of groups differs", "go": r["numSubexp"], "table": T.res[n]["numcap"]})
            for i, g in zip(chunk, r["res"]):
                go[i] = g if g is not None else "nomatch"
    ml = model.ask_many(["RE match %s %s" % (n, hx(l)) for n, l, _ in pairs])
    for (n, l, origin), g, m in zip(pairs, go, ml):
        if g is None:
            continue
        g = None if g == "nomatch" else g
        mm = parse_model_answer(m)
        rep.count("re:%s:%s" % (n, "matching" if g is not None else "non-matching"))
        if g != mm:
            dis.append({"regexp": n, "source": T.res[n]["source"], "line": l.decode("latin-1"), "origin": origin, "go": g, "model": mm})
    return dis


def gen_lines(rng, T, gen_valid, n_sampled, n_configs, n_mut):
    """-> [(home regexp or None, section or None, line, origin)]"""
    lines = []
    for e in T.tbl["regexps"]:
        sec = T.home.get(e["name"])
        if sec not in SECTIONS:
            sec = None
        for _ in range(n_sampled):
            out = []
            sample(e["tree"], rng, out)
            lines.append((e["name"], sec, b"".join(out), "sampled"))
    for _ in range(n_configs):
        for sec, t in logical_lines_by_section(gen_valid(rng, 3)):
            lines.append((None, sec, t, "grammar"))
    base = list(lines)
    for _ in range(n_mut):
        name, sec, l, origin = rng.pick(base)
        names = []
        for _ in range(rng.pick([1, 1, 1, 2])):
            l, nm = mutate_line(rng, l, T.keywords)
            names.append(nm)
        lines.append((name, sec, l, "mutated:" + "+".join(names)))
    return lines


def check_k(rep, impl, model, T, rng, lines):
    pairs = []
    for name, sec, l, origin in lines:
        names = []
        if name:
            names.append(name)
        if sec:
            names += T.chain[sec]
        names += [rng.pick(T.names), rng.pick(T.names)]
        if b"~" in l and "preprocRe" in T.res:
            names.append("preprocRe")
        if "identRe" in T.res and rng.chance(1, 4):
            # identifiers are checked on words
            toks = l.split()
            if toks:
                pairs.append(("identRe", rng.pick(toks), origin + ":word"))
        seen = set()
        for n in names:
            if n not in seen:
                seen.add(n)
                pairs.append((n, l, origin))
        rep.count("re-lines:" + origin.split(":")[0])
        for m in origin.split(":")[1].split("+") if origin.startswith("mutated:") else []:
            rep.count("re-mutation:" + m)
    return run_pairs(rep, impl, model, T, pairs), len(pairs)


# ---------------------------------------------------------------------------------------------
# O-C09-syntax
# ---------------------------------------------------------------------------------------------
def check_syntax(rep, impl, model, root, T, cases):
    """cases: [(section, line)], the line as the parser sees it (trimmed, one clause).
    Returns (oracle failures, number of cases, number cross-checked as rejected-unmatched)."""
    fails = []
    usable = []
    for sec, t in cases:
        t = go_trim_space(t)
        if not t or t.startswith(b"#") or t.startswith(b"include ") or (sec != "top" and t == b"end"):
            continue
        usable.append((sec, t))
    answers = model.ask_many(["RE first %s %s" % (",".join(T.chain[sec]) or "-", hx(t)) for sec, t in usable])
    os.makedirs(os.path.join(root, "syn"), exist_ok=True)
    n_unmatched_rejected = 0
    for (sec, t), a in zip(usable, answers):
        if a is None or a == "bad-op":
            fails.append({"what": "the model did not answer", "tags": {"kind": "syntax-oracle-model"}, "section": sec, "line": t.decode("latin-1")})
            continue
        matched = a != "-"
        why = a
        if sec == "top" and not matched and t.startswith(TOP_PREFIXES):
            matched, why = True, "prefix"
        opener = SECTIONS[sec][1]
        src = clause_source(t)
        body = (opener + b"\n" + src + b"\nend\n") if opener else (src + b"\n")
        at_line = 2 if opener else 1
        with open(os.path.join(root, "syn", "s.cfg"), "wb") as f:
            f.write(body)
        r = impl.parse("syn/s.cfg")
        rep.count("syntax-oracle:%s:%s" % (sec, "some-regexp-matches" if matched else "no-regexp-matches"))
        desc = {"section": sec, "line": t.decode("latin-1"), "case": {"files": {"main.cfg": body.decode("latin-1")}}, "model": why,
                "real": {k: r.get(k) for k in ("Ok", "Err", "Panicked", "Hung")}}
        if r.get("Hung") or r.get("Panicked") or r.get("harnessCrash"):
            # crash-freedom is O-C09a's business; nothing to compare here
            rep.count("syntax-oracle:crash")
            fails.append(dict(desc, what="the loader crashed or hung on a single clause: %r" % t[:80], tags={"kind": "panic", "input": "syntax-oracle"}))
            continue
        unknown_here = False
        if not r.get("Ok"):
            d = parse_diag(bytes.fromhex(r["ErrFullHex"]))
            unknown_here = bool(d.get("positioned")) and not d.get("malformed") and d.get("msg") == b"unknown syntax" and d.get("line") == at_line
            desc["diag"] = {"line": d.get("line"), "msg": (d.get("msg") or d.get("head") or b"").decode("latin-1")[:120]}
        if not matched:
            if unknown_here:
                n_unmatched_rejected += 1
            else:
                fails.append(dict(desc, what="no clause regexp of section %s matches %r, but the loader %s" % (
                    sec, t[:80], "accepts it" if r.get("Ok") else "does not answer \"unknown syntax\" at that line"),
                    tags={"kind": "syntax-oracle-unmatched-not-rejected", "section": sec}))
        elif unknown_here:
            fails.append(dict(desc, what="%s matches %r, but the loader answers \"unknown syntax\" there" % (why, t[:80]),
                              tags={"kind": "syntax-oracle-matched-unknown", "section": sec}))
        if not documented_shape(sec, t):
            rep.count("syntax-oracle:%s:not-a-documented-clause" % sec)
            if not unknown_here:
                fails.append(dict(desc, what="%r lacks the leading words of every documented clause of section %s, but the loader %s" % (
                    t[:80], sec, "accepts it" if r.get("Ok") else "takes it for a clause (%s)" % desc.get("diag", {}).get("msg", "")[:60]),
                    tags={"kind": "syntax-oracle-undocumented-clause", "section": sec}))
    return fails, len(usable), n_unmatched_rejected


# ---------------------------------------------------------------------------------------------
# G-RE: the theorems
# ---------------------------------------------------------------------------------------------
def proof_step(rep, thorough=False):
    mod = "ShkModel.Props.Regex"
    pf = os.path.join(LEAN, "ShkModel", "Props", "Regex.lean")
    names = theorem_names(pf)
    ok, out = lake_build([mod])
    axioms, bad = {}, {}
    if ok:
        ap = os.path.join(BUILD, "Audit_Regex.lean")
        with open(ap, "w") as f:
            f.write("import %s\n" % mod + "".join("#print axioms Shk.ReProps.%s\n" % n for n in names))
        rc, aout = sh(["lake", "env", "lean", ap], cwd=LEAN)
        text = aout.replace("\n  ", " ")
        for m in re.finditer(r"'([^']+)' (depends on axioms: \[([^\]]*)\]|does not depend on any axioms)", text):
            nm = m.group(1).split(".")[-1]
            axs = [a.strip() for a in (m.group(3) or "").split(",") if a.strip()]
            axioms[nm] = axs
            if [a for a in axs if a not in ALLOWED_AXIOMS]:
                bad[nm] = axs
        missing = [n for n in names if n not in axioms]
        if rc != 0 or missing or bad:
            ok = False
            out += "\naxiom audit: rc=%d missing=%s bad=%s\n%s" % (rc, missing, bad, aout[-1500:])
    failed = []
    if not ok:
        lines = open(pf).read().split("\n")
        starts = []
        for i, l in enumerate(lines):
            m = re.match(r"^theorem\s+([^\s:({\[]+)", l)
            if m:
                starts.append((i + 1, m.group(1)))
            elif re.match(r"^example\b", l):
                starts.append((i + 1, "non-vacuity example at line %d" % (i + 1)))
        for m in re.finditer(r"error: ShkModel/Props/Regex\.lean:(\d+):", out):
            ln = int(m.group(1))
            nm = None
            for s, n in starts:
                if s <= ln:
                    nm = n
            if nm and nm not in failed:
                failed.append(nm)
    for n in names:
        rep.obligation("theorem ReProps.%s (over the regenerated clause regexps)" % n, "P/G",
                       ok or (bool(failed) and n not in failed), "axioms: " + ",".join(axioms.get(n, [])) if ok else ("does not check" if n in failed else ""))
    for n in failed:
        if n not in names:
            rep.obligation("ReProps: " + n, "P/G", False, "does not check")
    if not ok and not failed:
        rep.obligation("lake build ShkModel.Props.Regex", "P/G", False, out[-1500:])
    if ok and thorough:
        lok, lout = sh(["lake", "env", "leanchecker", mod], cwd=LEAN)
        lok = lok == 0
        rep.obligation("leanchecker ShkModel.Props.Regex", "P", lok, lout[-500:])
        if not lok:
            ok = False
            out += "\nleanchecker: " + lout
    return ok, {"failed": failed, "output": out}


def check_driver_table(model, T):
    """the compiled driver holds the table generated in this run"""
    names = model.ask("RE names")
    if names != ",".join(T.names):
        return "driver lists %r, translator %r" % (names, ",".join(T.names))
    for n in T.names:
        if model.ask("RE src " + n) != hx(T.res[n]["source"]):
            return "source of %s differs between the driver and the translator" % n
    return None


# ---------------------------------------------------------------------------------------------
# entry point used by c09.run
# ---------------------------------------------------------------------------------------------
def run_extra(rep, impl, model, root, rng, quick, tbl, gen_valid):
    """returns dict(kdis=[…], ofail=[…]); obligations K-RE / O-C09-syntax are registered by the caller"""
    T = Table(tbl)
    res = {"kdis": [], "ofail": [], "npairs": 0, "ncases": 0, "nrej": 0, "table": T}
    stale = check_driver_table(model, T)
    if stale:
        res["kdis"].append({"what": "stale model driver: " + stale})
        return res
    unattached = [n for n in T.names if n not in T.home and n not in ("identRe", "preprocRe")]
    for n in unattached:
        rep.count("re-not-in-a-dispatch-chain:" + n)
    lines = gen_lines(rng, T, gen_valid, 40 if quick else 400, 25 if quick else 300, 2500 if quick else 40000)
    kdis, npairs = check_k(rep, impl, model, T, rng, lines)
    res["kdis"] += kdis
    res["npairs"] = npairs
    # O-C09-syntax on the lines that have a section
    cases = [(sec, l) for _, sec, l, _ in lines if sec]
    # one load of a scratch file costs ~3 ms (the loader runs `git diff` on every file it opens)
    cases = [c for i, c in enumerate(cases) if i % 2 == 0]
    fails, n, nrej = check_syntax(rep, impl, model, root, T, cases)
    res["ofail"] += fails
    res["ncases"], res["nrej"] = n, nrej
    return res
