from .c04 import run_prop


def run(tier, seed):
    return run_prop("C05", tier, seed)
