"""C11 — collected and computed variables hold exactly what the clauses say."""
import json
from fractions import Fraction as F
from .common import *
from . import audgen as g
from . import gen_tables

PROP = "C11"
TEND = 1000
MODES = ["first", "last", "top", "bottom"]
AFUNCS = ["count", "first", "last", "sorted", "sum", "avg", "med", "min", "max"]


def gen_vals(rng, n, strings=False):
    res = []
    for _ in range(n):
        k = rng.below(12)
        if k < 7:
            res.append(F(rng.range(-6, 12), rng.pick([1, 1, 2, 4])))
        elif k < 9:
            res.append(rng.chance(1, 2))
        elif k < 11 or not strings:
            res.append(None)
        else:
            res.append(rng.pick(["a", "b", "zz"]))
    return res


def to_json(v):
    if v is None or isinstance(v, (bool, str)):
        return v
    return float(v)


def impl_val_tok(v):
    """a JSON value returned by the real code -> model token"""
    if v is None:
        return "nil"
    if isinstance(v, bool):
        return "b:t" if v else "b:f"
    if isinstance(v, str):
        return "s:" + hexs(v)
    if isinstance(v, list):
        return "[" + ",".join(impl_val_tok(x) for x in v) + "]"
    return "n:" + g.rat(F(v).limit_denominator(10**9))


def val_close(a, b):
    """impl JSON value vs parsed model value"""
    if isinstance(a, list) or isinstance(b, list):
        return isinstance(a, list) and isinstance(b, list) and len(a) == len(b) and all(val_close(x, y) for x, y in zip(a, b))
    if isinstance(a, bool) or isinstance(b, bool) or a is None or b is None or isinstance(a, str) or isinstance(b, str):
        return a == b and type(a) == type(b)
    return abs(float(a) - float(b)) <= 1e-9 * max(1.0, abs(float(a)))


def gen_chain(rng):
    """a chain of dependent clauses across members"""
    cond0 = rng.pick([g.TRUE, ("bin", "eq", g.var("mood"), ("str", "red"))])
    mode = rng.pick(MODES)
    n = rng.range(1, 5)
    sig = g.var("s", "a")
    src_expr = rng.pick([sig, sig, ("bin", "sub", sig, g.num(2)), ("ite", ("bin", "gt", sig, g.num(1)), sig, g.num(0)),
                         ("bin", "gt", sig, g.num(4)) if mode in ("top", "bottom", "first", "last") else sig])
    m0 = {"name": "m0", "cond": cond0, "assigns": [{"target": "bin", "mode": mode, "n": n, "expr": src_expr}], "expect": None, "watches": []}
    f = rng.pick(AFUNCS)
    m0["assigns"].append({"target": "agg", "mode": "single", "n": 0, "expr": ("call1", f, g.var("bin"))})
    if rng.chance(1, 2):
        m0["assigns"].append({"target": "lastx", "mode": "single", "n": 0, "expr": ("call1", "last", g.var("bin"))})
    two_actors = rng.chance(1, 3)
    if two_actors:
        # a clause of the same member whose dependency (another actor's signal) is unsatisfied in most rounds comes
        # first: the clauses after it must still run in those rounds
        m0["assigns"].insert(0, {"target": "pre", "mode": "single", "n": 0, "expr": ("bin", "add", g.var("s", "b"), g.num(1))})
    members = [m0]
    if rng.chance(2, 3):
        # a later member uses the value in the same round
        e = rng.pick([("bin", "add", ("call1", "count", g.var("bin")), g.num(1)),
                      ("call2", "max", ("call1", "count", g.var("bin")), g.num(2)),
                      ("call1", "count", ("call1", "first", g.var("bin"))),
                      ("call1", "abs", ("bin", "sub", ("call1", "count", g.var("bin")), g.num(3)))])
        m1 = {"name": "m1", "cond": rng.pick([g.TRUE, ("bin", "ne", g.var("mood"), ("str", "blue"))]),
              "assigns": [{"target": "dep", "mode": "single", "n": 0, "expr": e}],
              "expect": (rng.pick(["always", "eventually", "once"]), ("bin", "ge", g.var("dep"), g.num(rng.range(1, 4)))), "watches": []}
        members.append(m1)
    snapped = False
    if rng.chance(1, 2):
        # another member keeps a copy of the collection while it is active; the copy must not move afterwards
        members.append({"name": "snap", "cond": rng.pick([("bin", "eq", g.var("mood"), ("str", "blue")), ("bin", "lt", g.var("t"), g.num(rng.range(4, 20)))]),
                        "assigns": [{"target": "frozen", "mode": "single", "n": 0, "expr": g.var("bin")}], "expect": None, "watches": []})
        snapped = True
    mixed = False
    if rng.chance(1, 2):
        # a later member hands an array variable and a scalar to one function (the evaluator builds the argument list by
        # appending to the array it was given): the variable itself, and every variable sharing its history, must not move
        arr = g.var("frozen") if snapped and rng.chance(2, 3) else g.var("bin")
        members.append({"name": "m2", "cond": g.TRUE,
                        "assigns": [{"target": "mix", "mode": "single", "n": 0,
                                     "expr": ("call2", rng.pick(["count", "sum", "max", "min"]), arr, g.num(rng.range(5, 9)))},
                                    {"target": "total", "mode": "single", "n": 0, "expr": ("call1", rng.pick(["sum", "count", "last"]), g.var("bin"))}],
                        "expect": None, "watches": []})
        mixed = True
    obs = {"name": "w", "cond": None, "assigns": [], "expect": None,
           "watches": [("", "bin")] + ([("", "frozen")] if snapped else []) + ([("", "total"), ("", "mix")] if mixed else []) + ([("", "dep")] if any(m["name"] == "m1" for m in members) and rng.chance(1, 2) else []) + ([("", "agg")] if f != "sorted" and rng.chance(1, 2) else [])}
    members.append(obs)
    return {"signals": [("s", "scalar")], "actors": ["a", "b"] if two_actors else ["a"], "members": members}


def gen_history(rng, n, actors=("a",)):
    evs, t, mood = [], F(0), "clear"
    for _ in range(n):
        t += F(rng.range(1, 4), 2)
        if rng.chance(1, 5):
            mood = rng.pick(["red", "blue", "clear", "red"])
            evs.append(("mood", t, mood))
        elif "b" in actors and rng.chance(1, 6):
            evs.append(("sig", t, [("scalar", "b", "s", F(rng.range(0, 9)))]))
        else:
            evs.append(("sig", t, [("scalar", "a", "s", F(rng.range(0, 9), rng.pick([1, 1, 2])))]))
    return evs


def active_samples(cfg, evs):
    """for the two activation shapes with a bare-signal source: the values produced inside periods"""
    m0 = cfg["members"][0]
    red_only = m0["cond"] != g.TRUE
    mood, res = "clear", []
    for e in evs:
        if e[0] == "mood":
            mood = e[2]
        else:
            if (not red_only or mood == "red") and e[2][0][1] == "a":
                res.append(e[2][0][3])
    return res


def run(tier, seed):
    rep = Report(PROP, tier, seed, "proof")
    rep.assumptions = ["numbers are exact rationals in the model, float64 in the code: compared with relative tolerance 1e-9; NaN and infinities are outside the model",
                       "govaluate's argument spreading is modelled (spread1/spread2) and compared through real expressions"]
    try:
        build_go()
        impl = Impl()
        gen_tables.regenerate(impl.call("automata"))
        build_driver()
    except BuildError as e:
        rep.obligation("build", "K", False, e.output)
        rep.violation("build failed: " + e.what, {"output": e.output[-4000:], "broken": "K-C11 (build)"}, nofail=True)
        return rep.finish("./check C11", "n/a")
    model = Model()
    ok, info = standard_proof_step(rep, PROP, thorough=(tier == "thorough"))
    rng = SplitMix(seed)
    kdis, ofail = [], []

    # ---- K/O-C11a: collect modes ------------------------------------------------
    ncol = 1500 if tier == "quick" else 60000
    for _ in range(ncol):
        mode, n = rng.pick(MODES), rng.range(1, 6)
        vals = gen_vals(rng, rng.range(0, 14), strings=mode in ("first", "last"))
        r = impl.call("collect", Mode=mode, N=n, Values=[to_json(v) for v in vals])
        vt = ",".join(g.sc_tok(v) for v in vals) or "-"
        m = model.ask("C11 collect %s %d %s" % (mode, n, vt))
        rep.case(("col", mode, n, vt))
        rep.count("collect:" + mode)
        if r.get("err"):
            if m != "err":
                kdis.append({"collect": mode, "n": n, "values": vt, "impl": r, "model": m})
            continue
        if m == "err" or not val_close(r["res"], g.parse_model_val(m)):
            kdis.append({"collect": mode, "n": n, "values": vt, "impl": r["res"], "model": m})
        o = model.ask("C11 collectspec %s %d %s %s" % (mode, n, vt, impl_val_tok(r["res"])))
        if o != "ok":
            ofail.append({"what": "collect", "mode": mode, "n": n, "values": [str(v) for v in vals], "impl": r["res"], "oracle": o,
                          "tag": {"fn": "collect:" + mode}})
    # ---- O-C11a': a NaN among the values (sqrt / log of a negative number, 0/0, a spotlight printing NaN) ---------
    # NaN is not ordered: `top` / `bottom` N hold the N largest / smallest of the values that ARE numbers
    for _ in range(150 if tier == "quick" else 3000):
        mode, n = rng.pick(["top", "bottom"]), rng.range(1, 5)
        vals = [("NaN!" if rng.chance(1, 4) else F(rng.range(-6, 12), rng.pick([1, 1, 2]))) for _ in range(rng.range(1, 9))]
        if "NaN!" not in vals:
            vals[rng.below(len(vals))] = "NaN!"
        r = impl.call("collect", Mode=mode, N=n, Values=[v if v == "NaN!" else float(v) for v in vals])
        rep.case(("collect-nan", mode, n, tuple(str(v) for v in vals)))
        rep.count("collect-with-NaN:" + mode)
        real = r.get("res") or []
        nums = [v for v in vals if v != "NaN!"]
        o = "FAIL a NaN was collected" if "NaN!" in real else \
            model.ask("C11 collectspec %s %d %s %s" % (mode, n, ",".join(g.sc_tok(v) for v in nums) or "-", impl_val_tok(real)))
        if r.get("err") or o != "ok":
            ofail.append({"what": "collect with a NaN among the values", "mode": mode, "n": n, "values": [str(v) for v in vals], "impl": real, "oracle": o if not r.get("err") else r.get("err"),
                          "tag": {"fn": "collects:" + mode, "nan": True}})
    # ---- K/O-C11a: functions --------------------------------------------------------
    nfn = 1500 if tier == "quick" else 60000
    for _ in range(nfn):
        f = rng.pick(AFUNCS)
        vals = gen_vals(rng, rng.range(0, 9), strings=f in ("count", "first", "last"))
        if f == "sorted":
            vals = [v for v in vals if not isinstance(v, bool)]      # ties between true and 1 have no defined order
        r = impl.call("func", Name=f, Args=[to_json(v) for v in vals])
        vt = ",".join(g.sc_tok(v) for v in vals) or "-"
        m = model.ask("C11 func %s %s" % (hexs(f), vt))
        rep.case(("fn", f, vt))
        rep.count("func:" + f)
        rep.count("args-with-nil" if None in vals else "args-without-nil")
        if r.get("err"):
            if m != "err":
                kdis.append({"func": f, "args": vt, "impl": r, "model": m})
            continue
        if m in ("err", "unmodelled") or not val_close(r["res"], g.parse_model_val(m)):
            kdis.append({"func": f, "args": vt, "impl": r["res"], "model": m})
        o = model.ask("C11 funcspec %s %s %s" % (hexs(f), vt, impl_val_tok(r["res"])))
        if o != "ok":
            ofail.append({"what": "function", "fn": f, "args": [str(v) for v in vals], "impl": r["res"], "oracle": o,
                          "tag": {"fn": f, "nil_in_args": None in vals}})
    # ---- K/O-C11b: through the audit loop --------------------------------------------------
    nch = 250 if tier == "quick" else 5000
    for _ in range(nch):
        cfg = gen_chain(rng)
        evs = gen_history(rng, rng.range(0, 40), actors=cfg["actors"])
        text = g.config_text(cfg)
        r = impl.call("audition", Args={"Parse": {"Text": text}, "Events": g.events_json(evs), "EpochOffset": float(TEND)})
        if r.get("Panicked") or r.get("harnessCrash") or (r.get("Err") or "").startswith("config:"):
            kdis.append({"config": text, "problem": r.get("Err") or r.get("Panic") or "crash"})
            continue
        ms = model.ask(g.model_request(cfg, evs, TEND))
        if ms is None or ms.startswith("bad-op"):
            kdis.append({"config": text, "problem": "model: " + str(ms)})
            continue
        im, mo = g.parse_impl(r), g.parse_model(ms)
        if mo["abort"] == "unmodelled":
            rep.count("unmodelled")
            continue
        rep.case(("chain", text, json.dumps([str(e) for e in evs])), nontrivial=len(evs) > 0)
        a_bin = next(a for a in cfg["members"][0]["assigns"] if a["target"] == "bin")
        rep.count("chain:" + a_bin["mode"] + (":after a clause with other dependencies" if cfg["members"][0]["assigns"][0]["target"] == "pre" else ""))
        keep = lambda it: it[0] == "obs" and it[3][0] == "" and it[3][1] not in ("t", "mood", "moodt")
        d = g.stream_diff(im, mo, TEND, keep=keep)
        vd = None
        if (im["abort"] == "none") != (mo["abort"] == "none"):
            vd = {"impl_err": im.get("err"), "model_abort": mo["abort"]}
        else:
            for k, v in mo["vars"].items():
                iv = im["vars"].get(k)
                if isinstance(iv, list) and v is None:
                    v = []
                if not g.num_eq(iv, v, TEND):
                    vd = {"var": k, "impl": iv, "model": str(v)}
        if d or vd:
            kdis.append({"config": text, "events": [str(e) for e in evs], "diff": d, "vars": vd})
        # O: a watched variable only changes through an assignment that is collected: its final value is the
        # last value the observer was told about
        if im["abort"] == "none":
            lastobs = {}
            for it in im["stream"]:
                if it[0] == "obs" and it[3][0] == "":
                    lastobs[it[3][1]] = it[4]
            for (_, vn) in cfg["members"][-1]["watches"]:
                fin = im["vars"].get(vn)
                if vn in lastobs and not g.num_eq(fin, lastobs[vn], TEND):
                    ofail.append({"what": "variable %s changed without an assignment being collected" % vn, "config": text, "events": g.events_json(evs),
                                  "impl": fin, "oracle": "last collected value %s" % (lastobs[vn],), "tag": {"fn": "silent-change", "var": vn}})
                rep.count("silent-change-oracle")
        a0 = a_bin
        if a0["expr"] == g.var("s", "a") and im["abort"] == "none":
            prod = active_samples(cfg, evs)
            o = model.ask("C11 collectspec %s %d %s %s" % (a0["mode"], a0["n"], ",".join(g.sc_tok(v) for v in prod) or "-", impl_val_tok(im["vars"].get("bin"))))
            rep.count("chain-oracle")
            if o != "ok":
                ofail.append({"what": "collects through the audit loop", "config": text, "events": g.events_json(evs), "produced": [str(v) for v in prod],
                              "impl": im["vars"].get("bin"), "oracle": o, "tag": {"fn": "collects:" + a0["mode"]}})
        rep.sample({"config": text, "events": len(evs), "vars": {k: str(v) for k, v in mo["vars"].items()}}, cap=2)
    # ---- K/O-C11c: relays — a later member collects a variable that an earlier member computes from the signal; the
    # samples repeat their value often: every assignment counts, not only those that change the value
    for _ in range(80 if tier == "quick" else 1500):
        mode, n = rng.pick(MODES), rng.range(1, 6)
        src = rng.pick([g.var("s", "a"), ("bin", "sub", g.var("s", "a"), g.num(2))])
        cfg = {"signals": [("s", "scalar")], "actors": ["a"], "members": [
            {"name": "m0", "cond": g.TRUE, "assigns": [{"target": "x", "mode": "single", "n": 0, "expr": src}], "expect": None, "watches": []},
            {"name": "m1", "cond": g.TRUE, "assigns": [{"target": "h", "mode": mode, "n": n, "expr": g.var("x")},
                                                      {"target": "cnt", "mode": "single", "n": 0, "expr": ("call1", "count", g.var("h"))}], "expect": None, "watches": []},
            {"name": "w", "cond": None, "assigns": [], "expect": None, "watches": [("", "h"), ("", "cnt")]}]}
        evs, t, last = [], F(0), F(rng.range(0, 5))
        for _k in range(rng.range(2, 14)):
            t += F(rng.range(1, 4), 2)
            if not rng.chance(1, 2):
                last = F(rng.range(0, 5))
            evs.append(("sig", t, [("scalar", "a", "s", last)]))
        text = g.config_text(cfg)
        r = impl.call("audition", Args={"Parse": {"Text": text}, "Events": g.events_json(evs), "EpochOffset": float(TEND)})
        if r.get("Panicked") or r.get("harnessCrash") or r.get("Err"):
            kdis.append({"config": text, "problem": r.get("Err") or r.get("Panic") or "crash"})
            continue
        ms = model.ask(g.model_request(cfg, evs, TEND))
        im, mo = g.parse_impl(r), g.parse_model(ms or "")
        rep.case(("relay", text, json.dumps([str(e) for e in evs])))
        rep.count("relay:" + mode)
        if ms is None or ms.startswith("bad-op") or mo["abort"] != "none" or im["abort"] != "none":
            kdis.append({"config": text, "problem": "relay: model %s / impl %s" % (ms and mo["abort"], im.get("err"))})
            continue
        for k, v in mo["vars"].items():
            iv = im["vars"].get(k)
            if isinstance(iv, list) and v is None:
                v = []
            if not g.num_eq(iv, v, TEND):
                kdis.append({"config": text, "events": [str(e) for e in evs], "vars": {"var": k, "impl": iv, "model": str(v)}})
                break
        # one production per round in which m1 runs with x available: every sample round (m0 assigns x, which wakes m1),
        # and the final round (every auditor still auditing runs; a computed variable stays available once assigned)
        prod = [e[2][0][3] - (2 if src[0] == "bin" else 0) for e in evs]
        prod = prod + prod[-1:]
        o = model.ask("C11 collectspec %s %d %s %s" % (mode, n, ",".join(g.sc_tok(v) for v in prod) or "-", impl_val_tok(im["vars"].get("h"))))
        if o != "ok":
            ofail.append({"what": "a later member collects a computed variable", "config": text, "events": g.events_json(evs), "produced": [str(v) for v in prod],
                          "impl": im["vars"].get("h"), "oracle": o, "tag": {"fn": "relay:" + mode}})
    rep.obligation("K-C11: collectFns / evalFunctions / assignments through the audit loop vs model", "K", not kdis, json.dumps(kdis[:3], default=str)[:1800])
    rep.obligation("O-C11: specification (collectSpec, funcOk) on the real results", "O", not ofail, json.dumps(ofail[:3], default=str)[:1800])
    if ofail:
        seen = set()
        for f in ofail:
            k = json.dumps(f["tag"])
            if k in seen:
                continue
            seen.add(k)
            rep.violation("%s: the real result %s contradicts the specification (%s)" % (f["what"], f["impl"], f["oracle"]), f, tags=f["tag"])
    else:
        if not ok:
            rep.violation("proof obligations of C11 no longer check", {"broken_theorems": info["failed"], "lean_output": info["output"][-3000:]}, nofail=True)
        elif kdis:
            rep.violation("correspondence K-C11 disagrees", {"broken": "K-C11", "disagreements": kdis[:5]}, nofail=True)
    impl.close()
    model.close()
    return rep.finish("cd lean && lake build ShkModel.Props.C11 && #print axioms",
                      "collect modes x N in 1..6 x random sequences of numbers, booleans, nils (and strings for first/last); every array function on random argument lists; chains of dependent collects/computes clauses across members through the real audit loop with random histories")
