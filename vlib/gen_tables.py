"""Regenerates lean/ShkModel/Gen/Tables.lean from the automata held by the freshly built code."""
import os
from .common import LEAN, write_if_changed, lean_str


def render(automata):
    out = ["import ShkModel.Model.Fsm",
           "/-! GENERATED on every run by vlib/gen_tables.py from `VerifAutomata()` of the code built",
           "from /repo's working tree (a run-time dump of `automata` in pkg/cmd/pred_fsm.go).",
           "Do not edit. -/",
           "namespace Shk.Gen", ""]
    out.append("def tables : List (String × Table) := [")
    rows = []
    for a in automata:
        edges = "[" + ", ".join("[" + ", ".join(str(x) for x in row) + "]" for row in a["Edges"]) + "]"
        names = "[" + ", ".join(lean_str(n) for n in a["StateNames"]) + "]"
        rows.append("  (%s, ⟨%d, %s, %s⟩)" % (lean_str(a["Name"]), a["StartState"], names, edges))
    out.append(",\n".join(rows))
    out.append("]")
    out.append("")
    out.append("/-- label order of every table as dumped; the driver model relies on [t, f, end, reset] -/")
    out.append("def labels : List (List String) := [")
    out.append(",\n".join("  [" + ", ".join(lean_str(x) for x in a["Labels"]) + "]" for a in automata))
    out.append("]")
    out.append("")
    out.append("def names : List String := tables.map (·.1)")
    out.append("def tbl (n : String) : Table := (tables.lookup n).getD ⟨0, [], []⟩")
    out.append("def labelsOk : Bool := labels.all (· == [\"t\", \"f\", \"end\", \"reset\"])")
    out.append("")
    out.append("end Shk.Gen")
    return "\n".join(out) + "\n"


def regenerate(automata):
    return write_if_changed(os.path.join(LEAN, "ShkModel", "Gen", "Tables.lean"), render(automata))
