"""Shared by C09 and C20: running the real configuration loader on files of a scratch tree,
parsing its rendered diagnostics, and running the Lean reader model on the same tree.

The reader model takes the file system as a table name -> entry.  The table is filled lazily:
the driver answers `need <name>` for a name it has not been told about, the name is looked up
on disk below the scratch root (the harness runs with that directory as its working directory,
so relative names mean the same for both sides), and the request is repeated.  Path arithmetic
(filepath.Join/Dir/Clean) is therefore the model's own; only "what is at this path" comes from
the operating system."""
import errno
import os
import re
import select
import stat
import subprocess

from .common import *


class ImplAt(Impl):
    """vharness started in a given working directory; a call that does not answer within the
    timeout is reported as a hang and the process is replaced."""

    def __init__(self, cwd, timeout=20.0):
        super().__init__()
        self.cwd = cwd
        self.timeout = timeout
        self.restarts = 0

    def start(self):
        self.p = subprocess.Popen(self.argv, stdin=subprocess.PIPE, stdout=subprocess.PIPE,
                                  stderr=subprocess.DEVNULL, text=True, bufsize=1, env=self.env, cwd=self.cwd)

    def call(self, op, **kw):
        req = dict(kw)
        req["Op"] = op
        if self.p is None or self.p.poll() is not None:
            self.start()
        self.calls += 1
        try:
            self.p.stdin.write(json.dumps(req) + "\n")
            self.p.stdin.flush()
        except BrokenPipeError:
            self.p = None
            return {"harnessCrash": True}
        r, _, _ = select.select([self.p.stdout], [], [], self.timeout)
        if not r:
            self.p.kill()
            self.p = None
            self.restarts += 1
            return {"Hung": True, "pythonWatchdog": True}
        out = self.p.stdout.readline()
        if out == "":
            self.p = None
            return {"harnessCrash": True}
        return json.loads(out)

    def parse(self, main, ipath=(), defines=(), slim=True, timeout_ms=5000):
        r = self.call("parseT", Args={"File": main, "IncludePath": list(ipath), "Defines": list(defines),
                                      "SkipComments": True}, TimeoutMs=timeout_ms, Slim=slim)
        if r.get("Hung"):
            # the abandoned goroutine may still be spinning: start afresh
            self.close()
            self.restarts += 1
        return r


def write_tree(root, files, dirs=()):
    """files: relative path (str) -> bytes"""
    for d in dirs:
        os.makedirs(os.path.join(root, d), exist_ok=True)
    for rel, data in files.items():
        p = os.path.join(root, rel)
        os.makedirs(os.path.dirname(p), exist_ok=True)
        with open(p, "wb") as f:
            f.write(data)


def hx(b):
    if isinstance(b, str):
        b = b.encode("utf-8")
    return "x" + b.hex()


def unhx(t):
    return bytes.fromhex(t[1:])


def stat_entry(root, name):
    """what the operating system has under `name` (bytes, relative to root or absolute):
    f<content> | d | m (does not exist) | e (open fails otherwise)"""
    try:
        p = os.path.join(os.fsencode(root), name) if name else os.fsencode(root)
        fd = os.open(p, os.O_RDONLY | os.O_NONBLOCK)
    except FileNotFoundError:
        return "m"
    except (OSError, ValueError):
        return "e"
    try:
        st = os.fstat(fd)
        if stat.S_ISDIR(st.st_mode):
            return "d"
        if not stat.S_ISREG(st.st_mode):
            return "e"
        data = b""
        while True:
            chunk = os.read(fd, 1 << 16)
            if not chunk:
                break
            data += chunk
        return "f" + hx(data)
    finally:
        os.close(fd)


def fs_token(fs):
    return ",".join("%s:%s" % (hx(n), e) for n, e in fs.items()) or "-"


def parse_clause(t):
    f, line, nphys, tl, insec, text = t.split(":")
    return {"file": unhx(f), "line": int(line), "nphys": int(nphys), "tblLen": int(tl),
            "inSec": insec == "1", "text": unhx(text)}


def parse_table(t):
    if t == "-":
        return []
    res = []
    for e in t.split(";"):
        n, v = e.split("=")
        res.append((unhx(n), unhx(v)))
    return res


def table_token(tbl):
    return ";".join("%s=%s" % (hx(n), hx(v)) for n, v in tbl) or "-"


def parse_outcome(t):
    w = t.split(" ")
    if w[0] != "err":
        return {"kind": w[0]}
    chain = [] if w[6] == "-" else [(unhx(e.split(":")[0]), int(e.split(":")[1])) for e in w[6].split(";")]
    k = w[7].split(":")
    return {"kind": "err", "file": unhx(w[1]), "line": int(w[2]), "lo": int(w[3]), "hi": int(w[4]),
            "nl": int(w[5]), "chain": chain, "err": k[0], "arg": k[1] if len(k) > 1 else None}


def model_load(model, root, main, ipath, defines, verdict="-", fs=None, old=False, max_rounds=400):
    """run the reader model on the scratch tree; returns (outcome, clauses, table, fs)"""
    if fs is None:
        fs = {}
    for _ in range(max_rounds):
        line = "C09 run %d %s %s %s %s %s" % (
            1 if old else 0,
            ",".join(hx(p) for p in ipath) or "-",
            ",".join(hx(d) for d in defines) or "-",
            hx(main), fs_token(fs), verdict)
        out = model.ask(line)
        if out is None:
            return {"kind": "driver-died"}, [], [], fs
        if out.startswith("need "):
            name = unhx(out[5:])
            fs[name] = stat_entry(root, name)
            continue
        parts = out.split(" | ")
        if len(parts) != 3:
            return {"kind": "bad-answer", "raw": out[:200]}, [], [], fs
        clauses = [] if parts[1] == "-" else [parse_clause(c) for c in parts[1].split(",")]
        return parse_outcome(parts[0]), clauses, parse_table(parts[2]), fs
    return {"kind": "too-many-rounds"}, [], [], fs


POS_RE = re.compile(rb"^(.+?):(\d+): ", re.S)
CHAIN_RE = re.compile(rb"^(.+):(\d+) <- here$")


def parse_diag(errfull):
    """the rendered error (bytes) -> dict(positioned, file, line, lo, hi, chain, head, ctx_ok)"""
    body = errfull
    hint = body.find(b"\nHINT: ")
    if hint >= 0:
        body = body[:hint]
    blocks = body.split(b"\n--\n")
    head = blocks[0]
    d = {"positioned": False, "head": head, "chain": []}
    wp = [b for b in blocks[1:] if b.startswith(b"while parsing:")]
    if not wp:
        return d
    m = POS_RE.match(head)
    if not m:
        d["positioned"] = True
        d["malformed"] = "no file:line prefix"
        return d
    d["positioned"] = True
    d["file"] = m.group(1)
    d["line"] = int(m.group(2))
    d["msg"] = head[m.end():]
    nums, marked = [], []
    pref = re.compile(rb"^" + re.escape(d["file"]) + rb":(\d+)")
    for l in wp[0].split(b"\n")[1:]:
        mm = pref.match(l)
        if not mm:
            d["malformed"] = "context line without position: %r" % l[:60]
            continue
        n = int(mm.group(1))
        nums.append(n)
        pad = b" " * max(0, 3 - len(mm.group(1)))
        rest = l[mm.end():]
        if rest.startswith(pad + b" > ") or rest == pad + b" >":
            marked.append(n)
    d["ctx"] = nums
    d["marked"] = marked
    if nums:
        d["lo"], d["hi"] = min(nums) - 1, max(nums) - 1
    ch = [b for b in blocks[1:] if b.startswith(b"in file included from:")]
    if ch:
        for l in ch[0].split(b"\n")[1:]:
            mm = CHAIN_RE.match(l)
            if mm:
                d["chain"].append((mm.group(1), int(mm.group(2))))
            else:
                d["malformed"] = "chain line: %r" % l[:60]
    return d


def clause_source(text):
    """a logical line (continuations joined with newlines) back to source form"""
    src = text.replace(b"\n", b"\\\n")
    if src.endswith(b"\\"):
        src += b" "       # a trailing backslash is only text when something follows it on the line
    return src
