"""End-to-end engine: runs the real `shakespeare` binary (built from /repo's working tree)
on generated plays inside scratch directories and collects what can be observed from
outside: exit status, narration, result.js, CSV files, ledgers written by the commands."""
import json
import os
import re
import shutil
import signal
import subprocess
import tempfile
import time
from concurrent.futures import ThreadPoolExecutor

from .common import BUILD

BIN = os.path.join(BUILD, "shakespeare")
BIN_VERIF = os.path.join(BUILD, "shakespeare-verif")


def parse_result_js(path):
    try:
        txt = open(path).read()
    except OSError:
        return None
    pre = "var result = "
    if not txt.startswith(pre):
        return {"_malformed": txt[:80]}
    try:
        return json.loads(txt[len(pre):])
    except ValueError as e:
        return {"_malformed": str(e)}


def read_tree(root):
    res = []
    for d, dirs, files in os.walk(root):
        for f in files + [x for x in dirs if os.path.islink(os.path.join(d, x))]:
            res.append(os.path.relpath(os.path.join(d, f), root))
    return sorted(res)


class Play:
    """one run of the binary"""

    def __init__(self, text, args=None, outdir_arg=None, timeout=60, env=None, extra_files=None,
                 keep=False, sigspec=None, cfg_name="play.cfg", points=None, tty_cols=None, more_signals=None, start_ignoring=None):
        self.text = text
        self.args = list(args or [])
        self.outdir_arg = outdir_arg      # as given to -o (may be relative to cwd)
        self.timeout = timeout
        self.env = env
        self.extra_files = extra_files or {}
        self.keep = keep
        self.sigspec = sigspec            # (delay_s, signal) delivered to the shakespeare process
        self.cfg_name = cfg_name
        self.points = points              # VERIF_POINTS for the verif-tagged binary (steers schedules)
        self.tty_cols = tty_cols          # standard output is a pseudo-terminal that many columns wide
        self.more_signals = more_signals or []    # [(delay_s after the previous signal, signal)] after sigspec
        self.start_ignoring = start_ignoring or []  # signals whose disposition is "ignored" when the process starts (nohup, `cmd &` in a script)

    def run(self):
        self.cwd = tempfile.mkdtemp(prefix="verif-play-")
        try:
            return self._run()
        finally:
            if not self.keep:
                shutil.rmtree(self.cwd, ignore_errors=True)

    def cleanup(self):
        shutil.rmtree(self.cwd, ignore_errors=True)

    def _run(self):
        with open(os.path.join(self.cwd, self.cfg_name), "w") as f:
            f.write(self.text)
        for name, content in self.extra_files.items():
            p = os.path.join(self.cwd, name)
            os.makedirs(os.path.dirname(p), exist_ok=True)
            with open(p, "w") as f:
                f.write(content)
        oarg = self.outdir_arg if self.outdir_arg is not None else "out"
        argv = [BIN_VERIF if self.points else BIN, "--ascii-only", "-o", oarg] + self.args + [self.cfg_name]
        env = dict(os.environ, SHELL="/bin/bash", VERIF_PLAY=os.path.basename(self.cwd))
        if self.points:
            env["VERIF_POINTS"] = self.points
        if self.env:
            env.update(self.env)
        t0 = time.time()
        ign = list(self.start_ignoring)

        def pre():
            for sg in ign:
                signal.signal(sg, signal.SIG_IGN)
        if not ign:
            pre = None
        tty_out, tty_thread = [], None
        if self.tty_cols is not None:
            import pty, fcntl, termios, struct, threading
            master, slave = pty.openpty()
            fcntl.ioctl(slave, termios.TIOCSWINSZ, struct.pack("HHHH", 24, self.tty_cols, 0, 0))
            p = subprocess.Popen(argv, cwd=self.cwd, env=env, stdout=slave, stderr=subprocess.PIPE,
                                 stdin=subprocess.DEVNULL, text=True, start_new_session=True, preexec_fn=pre)
            os.close(slave)

            def drain():
                while True:
                    try:
                        d = os.read(master, 65536)
                    except OSError:
                        break
                    if not d:
                        break
                    tty_out.append(d)
                os.close(master)
            tty_thread = threading.Thread(target=drain, daemon=True)
            tty_thread.start()
        else:
            p = subprocess.Popen(argv, cwd=self.cwd, env=env, stdout=subprocess.PIPE, stderr=subprocess.PIPE,
                                 stdin=subprocess.DEVNULL, text=True, start_new_session=True, preexec_fn=pre)
        timed_out = False
        if self.sigspec:
            delay, sig = self.sigspec
            try:
                out, err = p.communicate(timeout=delay)
            except subprocess.TimeoutExpired:
                try:
                    os.kill(p.pid, sig)
                except ProcessLookupError:
                    pass
                for d2, s2 in self.more_signals:
                    time.sleep(d2)
                    try:
                        os.kill(p.pid, s2)
                    except ProcessLookupError:
                        pass
                out = err = None
        else:
            out = err = None
        if out is None:
            try:
                out, err = p.communicate(timeout=self.timeout)
            except subprocess.TimeoutExpired:
                timed_out = True
                try:
                    os.killpg(p.pid, signal.SIGKILL)
                except ProcessLookupError:
                    pass
                out, err = p.communicate()
        wall = time.time() - t0
        if tty_thread is not None:
            tty_thread.join(2)
            out = b"".join(tty_out).decode("utf-8", "replace")
        odir = oarg if os.path.isabs(oarg) else os.path.normpath(os.path.join(self.cwd, oarg))
        res = {"rc": p.returncode, "stdout": out, "stderr": err, "wall": wall, "timed_out": timed_out,
               "cwd": self.cwd, "odir": odir, "argv": argv[1:]}
        # the run directory: the only sub-directory named by digits
        rundirs = []
        if os.path.isdir(odir):
            rundirs = sorted(d for d in os.listdir(odir) if re.fullmatch(r"\d{14}", d) and os.path.isdir(os.path.join(odir, d)))
        res["rundirs"] = rundirs
        rd = os.path.join(odir, rundirs[-1]) if rundirs else None
        res["rundir"] = rd
        res["result"] = parse_result_js(os.path.join(rd, "result.js")) if rd else None
        res["csv"] = {}
        if rd and os.path.isdir(os.path.join(rd, "csv")):
            for f in sorted(os.listdir(os.path.join(rd, "csv"))):
                try:
                    res["csv"][f] = open(os.path.join(rd, "csv", f)).read()
                except OSError:
                    pass
        res["plot_gp"] = None
        if rd and os.path.isfile(os.path.join(rd, "plots", "plot.gp")):
            res["plot_gp"] = open(os.path.join(rd, "plots", "plot.gp")).read()
        res["tree"] = read_tree(odir) if os.path.isdir(odir) else []
        try:
            res["latest"] = os.readlink(os.path.join(odir, "latest"))
            res["latest_resolves"] = os.path.realpath(os.path.join(odir, "latest")) if os.path.exists(os.path.join(odir, "latest")) else None
        except OSError:
            res["latest"] = None
            res["latest_resolves"] = None
        # ledgers written by the commands next to the configuration
        res["ledger"] = {}
        for f in os.listdir(self.cwd):
            if f.endswith(".ledger"):
                res["ledger"][f] = open(os.path.join(self.cwd, f)).read()
        return res


def run_many(plays, workers=12):
    with ThreadPoolExecutor(max_workers=workers) as ex:
        return list(ex.map(lambda p: p.run(), plays))
