"""C04 — scenes run in script order, behind barriers, never ahead of the tempo.
C05 — a play runs to the end of its script unless a failure is reported.  (shared engine)"""
import json
import time
from .common import *
from . import e2e, playgen

SLACK_NS = 5_000_000


def assign_positions(pos, model_positions, ledger):
    """map ledger entries to model positions: the k-th occurrence of (actor, action) in the model's
    execution order is the k-th ledger entry of that (actor, action)."""
    by_key = {}
    for e in ledger:
        by_key.setdefault((e["actor"], e["action"]), []).append(e)
    used = {}
    recs, missing = [], []
    for p in model_positions:
        ao, j, i, ln, k = p
        actor, action, _ = pos[(j, i, ln, k)]
        idx = used.get((actor, action), 0)
        used[(actor, action)] = idx + 1
        lst = by_key.get((actor, action), [])
        if idx < len(lst):
            recs.append((p, lst[idx]))
        else:
            missing.append(p)
    extra = []
    for key, lst in by_key.items():
        if len(lst) > used.get(key, 0):
            extra += lst[used.get(key, 0):]
    return recs, missing, extra


def run_cases(rep, tier, seed, prop, impl, model):
    rng = SplitMix(seed + (4 if prop == "C04" else 5))
    n = (24 if tier == "quick" else 300)
    cases = []
    for idx in range(n):
        kind = idx % 6
        kw = {}
        spot = None
        repeat = None
        if prop == "C05":
            if kind == 0:
                kw = {"fail_at": rng.below(50), "tolerated": False, "tolerated_before": idx % 12 == 0}
            elif kind == 1:
                kw = {"fail_at": rng.below(50), "tolerated": True}
            elif kind == 2:
                repeat = {"count": rng.range(1, 3)}
            elif kind == 3:
                spot = rng.pick(["echo hi", "sleep 0.05", "true"])        # exits by itself with status 0
            elif kind == 4:
                spot = "sleep 100"                                         # keeps running
                if rng.chance(1, 2):
                    kw = {"fail_at": rng.below(50), "tolerated": rng.chance(1, 2)}
            else:
                repeat = {"count": rng.range(1, 3)}
                kw = {"fail_at": rng.below(50), "tolerated": rng.chance(1, 2)}
            long_actions = False
        else:
            if kind == 0:
                kw = {"fail_at": rng.below(50), "tolerated": True, "fail_code": -9 if idx % 12 == 0 else 3}
            if kind == 1:
                repeat = {"count": 2}
            # actions shorter than the tempo in several acts: only the tempo keeps the groups apart
            long_actions = kind not in (1, 2, 3)
        g = playgen.gen_play(rng, nacts=(rng.range(2, 3) if (repeat or not long_actions) else None), spotlight=spot, long_actions=long_actions, **kw)
        if repeat:
            # repeat from the act containing some scene char of the last act
            ch = [c for c in g["acts"][-1] if c.isalpha()][0]
            # prefer a scene that also occurs in an earlier act: the repetition starts at the FIRST act that matches
            multi = [c for c in g["acts"][-1] if c.isalpha() and any(c in a for a in g["acts"][:-1])]
            if multi and rng.chance(2, 3):
                ch = multi[0]
            # sometimes a generous `repeat time` next to the count: the count still decides
            both = prop == "C05" and idx % 4 == 2
            g = playgen.gen_play(SplitMix(seed * 1000 + idx), nacts=len(g["acts"]), spotlight=spot, long_actions=long_actions,
                                 repeat={"from": ch, "count": repeat["count"], "time": "40s" if both else None}, edit_first=(idx % 2 == 1), **kw)
            g["repeat_count"] = repeat["count"]
            g["repeat_time"] = both
            g["repeat_char"] = ch
        cases.append(g)
    plays = [e2e.Play(g["text"], timeout=120) for g in cases]
    t_before = time.time_ns()
    results = e2e.run_many(plays, workers=8)
    kdis, ofail = [], []
    for g, r in zip(cases, results):
        pr = impl.call("parse", Args={"Text": g["text"]})
        if not pr.get("Ok"):
            kdis.append({"config": g["text"], "problem": "generated play rejected: %s" % pr.get("Err")})
            continue
        # the `?` marks are taken from the SOURCE of the script, not from what the compiler made of them
        for act in pr["Play"] or []:
            for sc in act["Scenes"]:
                for ln in sc["Lines"] or []:
                    for st in ln["Steps"] or []:
                        if not st["Mood"]:
                            st["FailOk"] = st["Action"] in g["marked"]
        pos = playgen.positions(pr["Play"])
        ptok = playgen.play_tokens(pr["Play"])
        # repeat spec as the real parser resolved it: read back from the -p listing
        from_act, count = 0, -1
        import re
        m = re.search(r"REPEATING FROM ACT (\d+)", pr["Steps"])
        if m:
            from_act = int(m.group(1))
            count = g.get("repeat_count", -1)
        if g.get("repeat_char") and m:
            # the documented rule, evaluated here: the repetition starts at the first act the expression matches
            story = pr.get("Story") or []
            want = next((i + 1 for i, a in enumerate(story) if g["repeat_char"] in a), 0)
            if want != from_act:
                ofail.append({"config": g["text"], "problems": ["`repeat from %s`: the play repeats from act %d, the first act that matches is act %d (storyline %s)" % (g["repeat_char"], from_act, want, story)],
                              "tag": {"kind": "repeat-start"}})
                from_act = want
        failing = [p for p, (ac, an, fo) in pos.items() if an in g["failing"]]
        ftok = ",".join("%d.%d.%d.%d" % p for p in failing) or "-"
        ms = model.ask("C04 perform %s %d:%d:%d %s -" % (ptok, from_act, count, 1 if g.get("repeat_time") else 0, ftok))
        if ms is None or ms.startswith("bad-op"):
            kdis.append({"config": g["text"], "problem": "model: %s" % ms})
            continue
        head, _, plist = ms.rpartition(" ")
        mok = "ok=true" in head
        mpos = [tuple(int(x) for x in t.split(".")) for t in ([] if plist == "-" else plist.split(","))]
        ledger = playgen.parse_ledger(r["ledger"].get("play.ledger", ""))
        recs, missing, extra = assign_positions(pos, mpos, ledger)
        rep.case(g["text"], nontrivial=len(mpos) > 1)
        rep.count("plays")
        rep.count("actions-performed", len(ledger))
        rep.count("result:" + ("fail" if r["rc"] else "ok"))
        if g["failing"]:
            rep.count("failure:" + ("tolerated" if g["tolerated"] else "fatal"))
        if from_act:
            rep.count("repeat")
        # ---- K: performed positions and result, real vs model ---------------------------------
        problems = []
        if r["timed_out"]:
            problems.append("timed out")
        if (r["rc"] == 0) != mok:
            problems.append("exit status %s but the model's result is %s" % (r["rc"], "ok" if mok else "error"))
        if missing:
            problems.append("%d prescribed action occurrences were not performed, first: %s" % (len(missing), pos.get(missing[0][1:])))
        if extra:
            problems.append("%d action occurrences performed beyond what the script prescribes, first: %s.%s" % (len(extra), extra[0]["actor"], extra[0]["action"]))
        if problems:
            tag = {"kind": "performed-set", "exit0": r["rc"] == 0, "spotlight": "self-exit" if "spotlight echo" in g["text"] or "spotlight true" in g["text"] or "spotlight sleep 0.05" in g["text"] else ("running" if "spotlight" in g["text"] else "none")}
            ofail.append({"config": g["text"], "problems": problems, "rc": r["rc"], "stderr": (r["stderr"] or "")[-1200:], "tag": tag})
            continue
        # ---- O: a command that died from a signal (no `B` record of its own) is recorded as failed ----
        if recs and any(e["stop"] is None for _, e in recs) and not r["timed_out"]:
            killed_bad = []
            for actor in g["actors"]:
                rows = playgen.parse_actor_csv(r["csv"].get(actor + ".csv", ""))
                for e in [e for _, e in recs if e["actor"] == actor and e["stop"] is None and g["actions"].get(e["action"], [0, 0])[1] < 0]:
                    mine = [row for row in rows if row["action"] == e["action"]]
                    if mine and all(row["status"] == 0 for row in mine):
                        killed_bad.append("%s.%s was killed by a signal but is recorded with status 0" % (actor, e["action"]))
            if killed_bad:
                ofail.append({"config": g["text"], "problems": killed_bad, "tag": {"kind": "recorded-vs-experienced", "detail": "killed"}})
        # ---- O: ordering, barrier and tempo inequalities on the observed trace -------------------
        if recs and all(e["stop"] is not None for _, e in recs):
            occ_acts = []
            for p, _ in recs:
                while len(occ_acts) <= p[0]:
                    occ_acts.append(None)
                occ_acts[p[0]] = p[1]
            if None in occ_acts:
                # act occurrences without any action: fill from the model order
                seen = {}
                for p in mpos:
                    seen[p[0]] = p[1]
                occ_acts = [seen.get(i, 0) for i in range(len(occ_acts))]
            base = min(e["start"] for _, e in recs) - 10**9
            t0 = max(0, r.get("spawn_ns", t_before) - base) if False else 0
            rtok = ",".join("%d.%d.%d.%d.%d:%d:%d:%d" % (p + (e["start"] - base + SLACK_NS, e["stop"] - base, 1 if e["status"] == 0 else 0)) for p, e in recs)
            o = model.ask("C04 traceok %s %d %s %s" % (ptok, max(0, t_before - base), ",".join(map(str, occ_acts)) or "-", rtok))
            if o != "ok":
                ofail.append({"config": g["text"], "problems": [o], "trace": rtok, "tag": {"kind": "ordering", "detail": o}})
            # recorded times vs experienced times: one unknown offset (the play's epoch)
            lo, hi = None, None
            bad_status = []
            for actor in g["actors"]:
                rows = playgen.parse_actor_csv(r["csv"].get(actor + ".csv", ""))
                mine = [e for _, e in sorted(recs, key=lambda pe: pe[1]["start"]) if e["actor"] == actor]
                if len(rows) != len(mine):
                    bad_status.append("%s.csv has %d rows for %d performed actions" % (actor, len(rows), len(mine)))
                    continue
                # the k-th row of an action belongs to its k-th performance (rows of concurrent lines of
                # one actor are written in completion order)
                byact = {}
                for e in mine:
                    byact.setdefault(e["action"], []).append(e)
                pairs = []
                for row in rows:
                    lst = byact.get(row["action"], [])
                    if not lst:
                        bad_status.append("%s.csv records %s more often than it was performed" % (actor, row["action"]))
                        continue
                    pairs.append((row, lst.pop(0)))
                for row, e in pairs:
                    if (row["status"] == 0) != (e["status"] == 0):
                        bad_status.append("%s.%s recorded status %d, command exited with %d" % (actor, e["action"], row["status"], e["status"]))
                    s_ns, d_ns = int(row["start"] * 1e9), int(row["dur"] * 1e9)
                    up = e["start"] - s_ns                       # epoch <= cmdStart - recordedStart
                    dn = e["stop"] - s_ns - d_ns                 # epoch >= cmdEnd - recordedStart - recordedDuration
                    hi = up if hi is None else min(hi, up)
                    lo = dn if lo is None else max(lo, dn)
            # the tempo against the act starts the program recorded itself (the act arrows of plots/plot.gp, one per
            # act occurrence after the first) and its own action rows: both on the play's clock, no slack needed
            import re as _re
            arrows = [float(x) for x in _re.findall(r"^set arrow from (-?[0-9.]+), graph 0 to \S+ graph 1 back nohead lc 'blue'", r.get("plot_gp") or "", _re.M)]
            pos_of = {id(e): p for p, e in recs}
            nocc = 1 + max((p[0] for p, _ in recs), default=0)
            if arrows and len(arrows) >= nocc - 1:
                OFF = 10**9
                toks = []
                for actor in g["actors"]:
                    rows = playgen.parse_actor_csv(r["csv"].get(actor + ".csv", ""))
                    mine = [e for _, e in sorted(recs, key=lambda pe: pe[1]["start"]) if e["actor"] == actor]
                    if len(rows) != len(mine):
                        continue
                    byact = {}
                    for e in mine:
                        byact.setdefault(e["action"], []).append(e)
                    for row in rows:
                        lst = byact.get(row["action"], [])
                        if lst:
                            e = lst.pop(0)
                            s_ns = int(round(row["start"] * 1e9)) + OFF + 1_200_000      # rounding of the two records: 0.1 ms and %f
                            toks.append("%d.%d.%d.%d.%d:%d:%d:1" % (pos_of[id(e)] + (s_ns, s_ns + int(row["dur"] * 1e9))))
                starts = [0] + [int(round(a * 1e9)) + OFF for a in arrows]
                if toks:
                    o = model.ask("C04 tempook %s %s %s" % (ptok, ",".join(map(str, starts)), ",".join(toks)))
                    rep.count("tempo-vs-recorded-act-starts")
                    if o != "ok":
                        ofail.append({"config": g["text"], "problems": ["an action starts earlier than (column index x tempo) after the recorded start of its act: %s" % o],
                                      "act_starts": arrows, "tag": {"kind": "ordering", "detail": "ahead of the tempo (recorded act starts)"}})
            if lo is not None and lo > hi + SLACK_NS + 200_000:      # CSV is rounded to 0.1 ms
                bad_status.append("no single epoch explains the recorded start/duration of all actions (needs >= %d and <= %d)" % (lo, hi))
            if bad_status:
                ofail.append({"config": g["text"], "problems": bad_status, "tag": {"kind": "recorded-vs-experienced"}})
        rep.sample({"config": g["text"], "rc": r["rc"], "performed": len(ledger)}, cap=2)
    return kdis, ofail


def run_abort_cases(rep, tier, seed, prop="C05"):
    """C05 (and the records of the aborted line: C04), directed: a non-tolerated failure in one line of a group while another line of the same group is in the
    middle of long *tolerated* actions (which the prompter then aborts).  Whatever the aborted line reports, the
    failure must be reported (exit status != 0) and no later group may start (`failure_stops`)."""
    rng = SplitMix(seed + 505)
    n = 3 if tier == "quick" else 16
    cases = []
    for i in range(n):
        nslow = rng.range(3, 6)
        slow_s = rng.pick([2, 3, 4])
        tol = rng.pick(["?", "?", "?", ""])
        story = rng.pick(["p+q s", "q+p s", "p+q .s", "q+p s."])
        text = "\n".join(["role r",
                          "  :fail " + playgen.action_cmd("fail", 0.01, 3),
                          "  :slow " + playgen.action_cmd("slow", slow_s, 0),
                          "  :mark " + playgen.action_cmd("mark", 0, 0),
                          "end", "cast", "  a plays r", "  b plays r", "end", "script", "  tempo %dms" % rng.pick([100, 200, 500]),
                          "  scene p entails for a: fail",
                          "  scene q entails for b: " + "; ".join(["slow" + tol] * nslow),
                          "  scene s entails for a: mark",
                          "  storyline " + story, "end"]) + "\n"
        cases.append(text)
    # a failure reported AFTER several lines of the same group have reported success must not be lost; the failing command
    # ends in one of the ways a shell command fails: `exit N`, the failing member of an `&&` list, a negated command
    # (the last two are not aborted by `set -e`: the script's status is that of its last command)
    for i in range(3 if tier == "quick" else 9):
        nok = rng.range(2, 4)
        actors = ["a"] + ["k%d" % j for j in range(nok)]
        fcmd = playgen.action_cmd("fail", rng.pick([0.2, 0.3, 0.4]), 3)
        style = i % 3
        if style == 1:
            fcmd = fcmd[:fcmd.rindex("exit 3")] + "test -e /nonexistent/verif-x && echo found"
        elif style == 2:
            fcmd = fcmd[:fcmd.rindex("exit 3")] + "! true"
        text = "\n".join(["role r",
                          "  :fail " + fcmd,
                          "  :fine " + playgen.action_cmd("fine", 0, 0),
                          "  :mark " + playgen.action_cmd("mark", 0, 0),
                          "end", "cast"] + ["  %s plays r" % x for x in actors] + ["end", "script", "  tempo 100ms"]
                         + ["  scene p entails for %s: fine" % x for x in actors[1:]]
                         + ["  scene p entails for a: fail", "  scene s entails for a: mark", "  storyline p s", "end"]) + "\n"
        cases.append(text)
    results = e2e.run_many([e2e.Play(t, timeout=60) for t in cases], workers=8)
    ofail = []
    for text, r in zip(cases, results):
        ledger = playgen.parse_ledger(r["ledger"].get("play.ledger", ""))
        nfail = sum(1 for e in ledger if e["action"] == "fail")
        nmark = sum(1 for e in ledger if e["action"] == "mark")
        rep.case(("abort", text), nontrivial=True)
        rep.count("abort-plays")
        problems = []
        if r["timed_out"]:
            problems.append("timed out")
        if nfail != 1:
            problems.append("the failing action ran %d times" % nfail)
        if r["rc"] == 0:
            problems.append("exit status 0 although the non-tolerated action a.fail failed (while other lines of the group were aborted or had already succeeded)")
        if nmark:
            problems.append("the next group started (a.mark performed %d times) after a non-tolerated failure" % nmark)
        if problems and prop == "C05":
            ofail.append({"config": text, "problems": problems, "rc": r["rc"], "stderr": (r["stderr"] or "")[-1200:],
                          "tag": {"kind": "failure-lost-when-concurrent-line-aborted", "exit0": r["rc"] == 0}})
        if prop == "C04" and not r["timed_out"]:
            # the records of the line that was aborted: every action that started has its row (an aborted one with a
            # failure status), rows are in the order of the starts, and nothing is recorded that never started
            recp = []
            for actor in sorted(set(e["actor"] for e in ledger)):
                started = [e for e in ledger if e["actor"] == actor]
                rows = playgen.parse_actor_csv(r["csv"].get(actor + ".csv", ""))
                rep.count("abort-plays: actions started", len(started))
                rep.count("abort-plays: actions aborted", sum(1 for e in started if e["stop"] is None))
                if [x["action"] for x in rows] != [e["action"] for e in started]:
                    recp.append("actor %s: the commands started are %s, the recorded actions are %s" % (
                        actor, [e["action"] + ("" if e["stop"] is not None else "(aborted)") for e in started], [x["action"] for x in rows]))
                    continue
                for e, x in zip(started, rows):
                    if e["stop"] is None and x["status"] == 0:
                        recp.append("actor %s: %s was aborted and is recorded as a success" % (actor, e["action"]))
                after = False
                for e in started:
                    if after:
                        recp.append("actor %s: %s started after an earlier action of its line was aborted" % (actor, e["action"]))
                        break
                    after = e["stop"] is None
            if recp:
                ofail.append({"config": text, "problems": recp, "rc": r["rc"], "ledger": r["ledger"].get("play.ledger", "")[-800:],
                              "csv": {k: v[-400:] for k, v in r["csv"].items()}, "tag": {"kind": "records-of-an-aborted-line"}})
    return ofail


def run_prop(prop, tier, seed):
    rep = Report(prop, tier, seed, "proof")
    rep.assumptions = ["goroutines, exec and the kernel realise the abstract steps of the prompter model: observed on generated plays, not proved (partial)",
                       "wall-clock readings of the commands (date +%s%N) and of shakespeare are on one clock; 5 ms slack; lower bounds only"]
    try:
        build_go()
        build_driver()
    except BuildError as e:
        rep.obligation("build", "K", False, e.output)
        rep.violation("build failed: " + e.what, {"output": e.output[-4000:], "broken": "K-%s (build)" % prop}, nofail=True)
        return rep.finish("./check " + prop, "n/a")
    impl, model = Impl(), Model()
    ok, info = standard_proof_step(rep, prop, thorough=(tier == "thorough"))
    kdis, ofail = run_cases(rep, tier, seed, prop, impl, model)
    ofail += run_abort_cases(rep, tier, seed, prop)
    rep.obligation("K-%s: generated plays compile and the model accepts them" % prop, "K", not kdis, json.dumps(kdis[:2])[:1500])
    rep.obligation("O-%s: real binary — performed action set, exit status, ordering/barrier/tempo inequalities, recorded vs experienced times" % prop, "O", not ofail, json.dumps(ofail[:2])[:1800])
    if ofail:
        seen = set()
        for f in ofail:
            k = json.dumps(f["tag"], sort_keys=True)
            if k in seen:
                continue
            seen.add(k)
            rep.violation("; ".join(f["problems"])[:400], f, tags=f["tag"])
    else:
        if not ok:
            rep.violation("proof obligations of %s no longer check" % prop, {"broken_theorems": info["failed"], "lean_output": info["output"][-3000:]}, nofail=True)
        elif kdis:
            rep.violation("correspondence K-%s disagrees" % prop, {"broken": "K-" + prop, "disagreements": kdis[:5]}, nofail=True)
    impl.close()
    model.close()
    return rep.finish("cd lean && lake build ShkModel.Props.%s && #print axioms" % prop,
                      "generated plays (1-3 acts, 1-4 columns, + groups, several actors and lines, action durations below and above the tempo, tolerated and fatal failures, repeats, spotlights that keep running / exit by themselves / are absent) run with the real binary; ledger written by the commands themselves")


def run(tier, seed):
    return run_prop("C04", tier, seed)
