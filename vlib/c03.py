"""C03 — exit status and foul flag follow the documented interpretation rules."""
import json
from .common import *
from . import e2e

PROP = "C03"
MODES = {0: "ignore", 1: "foul upon", 2: "require"}
RES = {"d": "disappointment", "s": "satisfaction"}
# count shapes an auditor can be driven into by a constant predicate:
#   name -> (audits clause, modality, predicate, reports the collector will see (shape))
SHAPES = {
    "good-only": ("throughout", "always", "t >= 0", [3, 0]),
    "bad-and-good": ("throughout", "always", "t < 0", [2, 0]),
    "bad-only": ("throughout", "eventually", "t < 0", [3, 2]),
    "no-data": ("only while t < 0", "always", "t >= 0", []),
}


# end-to-end only: a member that RECEIVES data (a watched signal with samples) but never audits a period — the
# interpretation rules only count auditors that audited at least one period
WATCHING = ("only while [a v] > 100", "always", "[a v] >= 0", [])
WATCH_ROLE = ('  spotlight while true; do echo "v 5"; sleep 0.02; done\n  signal v scalar at (?P<ts_now>)v (?P<scalar>\\d+)')


def gen_ops(rng, names):
    """random sequence of audience mentions and interpretation clauses (in file order)"""
    ops = []
    defined = []
    pend = list(names)
    for _ in range(rng.range(0, 8)):
        k = rng.below(10)
        if pend and (k < 3 or not defined):
            n = pend.pop(0)
            defined.append(n)
            ops.append(("M", n))
        elif k < 5:
            ops.append(("I", rng.pick(["d", "s"])))
        elif defined:
            ops.append(("S", rng.below(3), rng.pick(defined), rng.pick(["d", "s"])))
    for n in pend:
        ops.append(("M", n))
    # a few more clauses after everybody is defined
    for _ in range(rng.range(0, 4)):
        if rng.chance(1, 4):
            ops.append(("I", rng.pick(["d", "s"])))
        else:
            ops.append(("S", rng.below(3), rng.pick(names), rng.pick(["d", "s"])))
    return ops


def ops_text(ops, shapes, like_ok=False):
    """configuration text: audience sections introduce members, interpretation sections hold clauses.
    like_ok: a member may be introduced by `expects like <earlier member>` (it takes the earlier member's predicate and
    modality — and nothing of its interpretation); only where the reports are scripted, not computed from the predicates"""
    out = []
    sec = None
    introduced = []

    def switch(s):
        nonlocal sec
        if sec != s:
            if sec:
                out.append("end")
            out.append(s)
            sec = s

    for o in ops:
        if o[0] == "M":
            switch("audience")
            au, mod, pred, _ = shapes[o[1]]
            out.append("  %s audits %s" % (o[1], au))
            if like_ok and introduced and o[1] not in introduced and (len(out) + len(ops)) % 3 == 0:
                out.append("  %s expects like %s" % (o[1], introduced[(len(out)) % len(introduced)]))
            else:
                out.append("  %s expects %s: %s" % (o[1], mod, pred))
            if o[1] not in introduced:
                introduced.append(o[1])
        elif o[0] == "I":
            switch("interpretation")
            out.append("  ignore %s" % RES[o[1]])
        else:
            switch("interpretation")
            # the grammar allows any run of blanks between the words (`foul\s+upon`): one clause in four is written
            # with a wide blank or a tab
            k = (len(out) * 7 + len(str(o[1])) + len(str(o[3])) + len(o[2])) % 8
            mode = MODES[o[1]].replace(" ", "  " if k == 1 else "\t" if k == 2 else " ")
            sep = "   " if k == 3 else " "
            out.append("  %s%s%s%s%s" % (mode, sep, o[2], sep, RES[o[3]]))
    if sec:
        out.append("end")
    return "\n".join(out) + "\n"


def ops_tokens(ops):
    t = []
    for o in ops:
        if o[0] == "M":
            t.append("M:" + hexs(o[1]))
        elif o[0] == "I":
            t.append("I:" + o[1])
        else:
            t.append("S:%d:%s:%s" % (o[1], hexs(o[2]), o[3]))
    return ",".join(t) or "-"


PLAY_HEAD = """role r
  :ok true
  :bad false
%s
end
cast
  a plays r
end
script
  tempo 30ms
  scene x entails for a: %s
  scene y entails for a: ok
  storyline xy
end
"""


def run(tier, seed):
    rep = Report(PROP, tier, seed, "proof")
    rep.assumptions = ["the error funnel is modelled sequentially (stageErr/finish); the real goroutine interleavings are only exercised end-to-end",
                       "end-to-end plays drive each auditor into a count shape with a constant predicate"]
    try:
        build_go()
        build_driver()
    except BuildError as e:
        rep.obligation("build", "K", False, e.output)
        rep.violation("build failed: " + e.what, {"output": e.output[-4000:], "broken": "K-C03 (build)"}, nofail=True)
        return rep.finish("./check C03", "n/a")
    impl, model = Impl(), Model()
    ok, info = standard_proof_step(rep, PROP, thorough=(tier == "thorough"))
    rng = SplitMix(seed)
    kdis, ofail = [], []
    names = ["bob", "carol", "dan"]
    shape_names = list(SHAPES)

    # ---- K/O-C03a in-process: parser + real collector loop vs model ----------------------
    n_a = 600 if tier == "quick" else 20000
    for _ in range(n_a):
        nm = names[:rng.range(1, 3)]
        ops = gen_ops(rng, nm)
        shapes = {n: SHAPES[rng.pick(shape_names)] for n in nm}
        text = ops_text(ops, shapes, like_ok=True)
        if "expects like" in text:
            rep.count("in-process:member introduced by `expects like`")
        reports = []
        for _ in range(rng.range(0, 10)):
            reports.append((rng.pick(nm), rng.pick([0, 2, 3, 3, 0, 2, 1] if rng.chance(1, 6) else [0, 2, 3, 3])))
        early = rng.chance(1, 2)
        r = impl.call("collectReports", Args={"Text": text}, Reports=[{"Auditor": a, "Code": c} for a, c in reports], EarlyExit=early)
        ot = ops_tokens(ops)
        m = model.ask("C03 collect %s %d %s" % (ot, 1 if early else 0, ",".join("%s:%d" % (hexs(a), c) for a, c in reports) or "-"))
        rep.case(("a", text, json.dumps(reports), early))
        rep.count("in-process:" + ("-S" if early else "no-S"))
        if r.get("ConfigErr"):
            if m != "rejected":
                kdis.append({"config": text, "impl": r["ConfigErr"], "model": m})
            rep.count("in-process:rejected")
            continue
        if r.get("Panicked") or r.get("harnessCrash") or m in (None, "rejected") or m.startswith("bad-op"):
            kdis.append({"config": text, "impl": r, "model": m})
            continue
        mm = dict(kv.split("=") for kv in m.split(" ")[:4])
        tal = {}
        for it in m.split(" ")[4].split(","):
            if it == "-":
                continue
            h, g_, b_, hd = it.split(":")
            tal[bytes.fromhex(h[1:]).decode()] = (int(g_), int(b_), hd == "true")
        fouled_impl = bool(r["Err"])
        mism = []
        if str(fouled_impl).lower() != mm["fouls"]:
            mism.append("verdict")
        if r["Consumed"] != int(mm["consumed"]):
            mism.append("consumed")
        for n_ in nm:
            if tuple(r["Tallies"].get(n_, [0, 0])) != tal.get(n_, (0, 0, False))[:2] or r["HasData"].get(n_, False) != tal.get(n_, (0, 0, False))[2]:
                mism.append("tally " + n_)
        if mism:
            kdis.append({"config": text, "reports": reports, "early": early, "mismatch": mism, "impl": r, "model": m})
        if fouled_impl and not r["IsAuditViolation"]:
            kdis.append({"config": text, "problem": "collector error is not an audit violation", "impl": r})
        # O: the interpretation each (auditor, result) ended with = the last clause addressing it (spec lastWins)
        for row in r["Interp"]:
            for res_, got in (("d", row[1]), ("s", row[2])):
                lw = model.ask("C03 lastwins %s %s %s" % (ot, hexs(row[0]), res_))
                if lw != str(got):
                    ofail.append({"config": text, "auditor": row[0], "result": RES[res_], "impl_mode": got, "last_clause_mode": lw,
                                  "tag": {"kind": "override"}})
        # O: -S stops only on a foul
        if early and r["Consumed"] < len(reports) and not fouled_impl:
            ofail.append({"config": text, "reports": reports, "problem": "-S stopped the collector without reporting a foul", "tag": {"kind": "S-success"}})
        # O: … and only on a foul that stands: the same reports, heard to the end without -S, are a fouled play too
        # (a `require` clause can only be judged at the end of the play)
        if early and fouled_impl and r["Consumed"] < len(reports):
            r0 = impl.call("collectReports", Args={"Text": text}, Reports=[{"Auditor": a, "Code": c} for a, c in reports], EarlyExit=False)
            rep.count("in-process:-S stop compared with the whole play")
            if not r0.get("Err") and not r0.get("Panicked") and not r0.get("harnessCrash"):
                ofail.append({"config": text, "reports": reports, "args": ["-S"],
                              "problem": "-S stopped the play after %d of %d reports with `%s`, but the whole play is not fouled" % (r["Consumed"], len(reports), r["Err"]),
                              "tag": {"kind": "S-foul-that-does-not-stand"}})
    rep.sample({"in_process_config": text, "reports": reports, "early": early})

    # ---- K/O-C03b end-to-end: exit status and Foul flag of the real binary ------------------------
    plays, meta = [], []

    def add(text, args, expect_fail, what, tag):
        plays.append(e2e.Play(text, args=args, timeout=90))
        meta.append({"expect_fail": expect_fail, "what": what, "tag": tag, "config": text, "args": args})

    combos = []
    for sh in shape_names:
        for mb in range(3):
            for mg in range(3):
                combos.append((sh, mb, mg))
    if tier == "quick":
        combos = [c for i, c in enumerate(combos) if i % 2 == (seed % 2)] + [("bad-and-good", 1, 2), ("no-data", 2, 2)]
    combos += [("watching-never-active", 2, 2), ("watching-never-active", 0, 2), ("watching-never-active", 2, 0)]
    for sh, mb, mg in combos:
        for early in (False, True):
            ops = [("M", "bob"), ("S", mb, "bob", "d"), ("S", mg, "bob", "s")]
            shp = WATCHING if sh == "watching-never-active" else SHAPES[sh]
            text = PLAY_HEAD % (WATCH_ROLE if sh == "watching-never-active" else "", "ok") + ops_text(ops, {"bob": shp})
            reports = ",".join("%s:%d" % (hexs("bob"), c) for c in shp[3]) or "-"
            m = model.ask("C03 collect %s 0 %s" % (ops_tokens(ops), reports))
            exp = "fouls=true" in m
            add(text, ["-S"] if early else [], exp, "auditor bob in shape %s with %s disappointment / %s satisfaction%s" % (sh, MODES[mb], MODES[mg], ", -S" if early else ""),
                {"site": "audit", "shape": sh, "bad": mb, "good": mg, "S": early})
    # overriding sequences and the shorthand, two auditors
    for _ in range(6 if tier == "quick" else 60):
        nm = ["bob", "carol"]
        ops = gen_ops(rng, nm)
        shapes = {n: SHAPES[rng.pick(shape_names)] for n in nm}
        if model.ask("C03 interp %s" % ops_tokens(ops)) == "rejected":
            continue
        reports = []
        for n_ in nm:
            reports += ["%s:%d" % (hexs(n_), c) for c in shapes[n_][3]]
        m = model.ask("C03 collect %s 0 %s" % (ops_tokens(ops), ",".join(reports) or "-"))
        early = rng.chance(1, 2)
        add(PLAY_HEAD % ("", "ok") + ops_text(ops, shapes), ["-S"] if early else [], "fouls=true" in m,
            "overriding clauses %s" % ops_tokens(ops), {"site": "audit-override", "S": early})
    # failing command sites (no auditors)
    add(PLAY_HEAD % ("", "bad"), [], True, "a non-tolerated action fails", {"site": "action"})
    add(PLAY_HEAD % ("", "bad?"), [], False, "a tolerated action fails", {"site": "tolerated-action"})
    add(PLAY_HEAD % ("", "ok?; bad"), [], True, "a non-tolerated action fails after a tolerated one of the same line", {"site": "action-after-tolerated"})
    add(PLAY_HEAD % ("", "bad?; ok; bad?"), [], False, "only tolerated actions fail, around a succeeding one", {"site": "tolerated-action"})
    add(PLAY_HEAD % ("  cleanup false", "ok"), [], True, "the initial cleanup fails", {"site": "initial-cleanup"})
    add(PLAY_HEAD % ("  cleanup if [ -e ran ]; then exit 1; fi; touch ran", "ok"), [], True, "the final cleanup fails", {"site": "final-cleanup"})
    # (the play lasts long enough for the failure to be noticed while it runs, also on a loaded machine: a failure that
    # only becomes known once the prompter has ended the spotlights is dropped — the known finding below)
    add(PLAY_HEAD % ("  :wait sleep 1.5\n  spotlight exit 3", "wait"), [], True, "the spotlight fails", {"site": "spotlight"})
    # the spotlight's shell fails at once while a child it left in the background holds its output: the runner only learns
    # the exit status when the output closes, i.e. when the play is over, and the spotlight manager drops it then (known
    # finding: the failure goes unreported)
    add(PLAY_HEAD % ("  :wait sleep 1.5\n  spotlight sleep 2.0911 & exit 3", "wait"), [], True, "the spotlight's shell fails while its background child holds the output",
        {"site": "spotlight", "shape": "shell failed, child holds the output"})
    add(PLAY_HEAD % ("", "ok"), [], False, "nothing goes wrong", {"site": "none"})
    add(PLAY_HEAD % ("", "ok") + "audience\n  bob audits throughout\n  bob expects always: t < 'a'\nend\n", [], True,
        "the predicate fails to evaluate", {"site": "eval-error"})
    add(PLAY_HEAD % ("", "ok") + "audience\n  bob audits throughout\n  bob expects always: t < 'a'\nend\n", ["-S"], True,
        "the predicate fails to evaluate, -S", {"site": "eval-error", "S": True})
    p = e2e.Play(PLAY_HEAD % ("", "ok"), outdir_arg="/proc/verif-no-such-dir/out", timeout=30)
    plays.append(p)
    meta.append({"expect_fail": True, "what": "the output directory cannot be created", "tag": {"site": "directory"}, "config": p.text, "args": ["-o", "/proc/..."]})
    # a documented cause has occurred and THEN the play is ended by SIGTERM (a "legitimate" way to end a play, which by
    # itself gives status 0): the cause must still decide the status
    import signal as _sig
    for what, extra, acts, aud, site in (
            ("an auditor was disappointed, then SIGTERM during a long action", "  :slow sleep 8", "slow", "audience\n  bob audits throughout\n  bob expects always: t < 0\nend\n", "audit-then-sigterm"),
            ("an action failed on a concurrent line, then SIGTERM", "  :slow sleep 8", "bad?; slow", "audience\n  bob audits throughout\n  bob expects never: t >= 0\nend\n", "audit-then-sigterm"),
            ):
        p = e2e.Play(PLAY_HEAD % (extra, acts) + aud, timeout=40, sigspec=(1.2, _sig.SIGTERM))
        plays.append(p)
        meta.append({"expect_fail": True, "what": what, "tag": {"site": site}, "config": p.text, "args": ["SIGTERM at 1.2 s"]})
    # upload operations: a stand-in `scp` first on the PATH that succeeds, exits 1, or is killed by a signal
    # (status -1 for the program: "failed" must not be read off a positive exit code)
    up_scratch = Scratch("verif-c03-")
    bindir = os.path.join(os.path.realpath(up_scratch.__enter__()), "bin")
    os.makedirs(bindir)
    with open(os.path.join(bindir, "scp"), "w") as f:
        f.write("#!/bin/bash\ncase \"${VERIF_SCP_FAIL:-}\" in\n signal) case \"$(cat /proc/$PPID/comm 2>/dev/null)\" in bash|sh|dash) kill -KILL $PPID;; esac; kill -KILL $$;;\n"
                " 1) echo 'scp: connection refused' >&2; exit 1;;\nesac\nexit 0\n")
    os.chmod(os.path.join(bindir, "scp"), 0o755)
    for mode, expf, what in (("", False, "the upload succeeds"), ("1", True, "the upload tool exits 1"), ("signal", True, "the upload tool is killed by a signal")):
        for url in ("scp://host/results",):
            p = e2e.Play(PLAY_HEAD % ("", "ok"), args=["--upload-url", url], timeout=60,
                         env={"PATH": bindir + ":" + os.environ["PATH"], "VERIF_SCP_FAIL": mode})
            plays.append(p)
            meta.append({"expect_fail": expf, "what": what, "tag": {"site": "upload", "mode": mode or "ok"}, "config": p.text, "args": ["--upload-url", url, "VERIF_SCP_FAIL=" + mode]})
    p = e2e.Play(PLAY_HEAD % ("", "ok"), args=["--upload-url", "ftp://host/results"], timeout=60)
    plays.append(p)
    meta.append({"expect_fail": True, "what": "the upload URL has an unsupported scheme", "tag": {"site": "upload", "mode": "scheme"}, "config": p.text, "args": ["--upload-url", "ftp://host/results"]})
    # schedules: the verdict of the final round must survive every order in which the conductor
    # notices that spotlights, audition and collector have finished (pause points steer the selects)
    final_only = {"bad at the end only": ("eventually", "t < 0", "", True), "good at the end only, fouling": ("always", "t >= 0", "interpretation\n  foul upon bob satisfaction\nend\n", True),
                  "good at the end only, required": ("always", "t >= 0", "interpretation\n  require bob satisfaction\nend\n", False)}
    sched = {"audition overtakes spotlights": "conduct.stage2=sleep:30ms,collector.loop=sleep:40ms",
             "collector still busy at stage 3": "conduct.stage3=sleep:20ms,collector.loop=sleep:40ms",
             "everything finished before stage 2": "conduct.stage2=sleep:80ms",
             "slow conductor at stage 1": "conduct.stage1=sleep:60ms,collector.loop=sleep:30ms"}
    for fname, (mod, pred, interp, expf) in final_only.items():
        for sname, pts in sched.items():
            for k in range(6 if tier == "quick" else 30):
                text = PLAY_HEAD % ("", "ok") + "audience\n  bob audits throughout\n  bob expects %s: %s\nend\n" % (mod, pred) + interp
                plays.append(e2e.Play(text, timeout=90, points=pts))
                meta.append({"expect_fail": expf, "what": "verdict of the final round (%s) under schedule: %s" % (fname, sname),
                             "tag": {"site": "final-round-verdict", "schedule": sname}, "config": text, "args": ["VERIF_POINTS=" + pts]})
    results = e2e.run_many(plays, workers=12)
    up_scratch.__exit__(None, None, None)
    for r, m in zip(results, meta):
        rep.case(("b", m["config"], json.dumps(m["args"])))
        rep.count("e2e:" + m["tag"]["site"])
        failed = r["rc"] != 0
        problems = []
        if r["timed_out"]:
            problems.append("timed out")
        if failed != m["expect_fail"]:
            problems.append("exit status %s, expected %s" % (r["rc"], "non-zero" if m["expect_fail"] else "0"))
        flag_only = False
        if r["result"] is not None and m["tag"]["site"] != "directory":
            if bool(r["result"].get("Foul")) != failed:
                flag_only = not problems and m["tag"]["site"] == "upload"
                problems.append("result.js Foul=%s but exit status %s" % (r["result"].get("Foul"), r["rc"]))
            if failed and not r["result"].get("Error"):
                problems.append("failed without an Error in result.js")
        if problems:
            # a failed upload that is reported by the exit status but not in result.js (written before the upload)
            tag = {"site": "upload", "foul_flag": "not recorded"} if flag_only else m["tag"]
            ofail.append({"what": m["what"], "config": m["config"], "args": m["args"], "problems": problems, "rc": r["rc"],
                          "stderr": (r["stderr"] or "")[-1500:], "stdout": (r["stdout"] or "")[-1500:], "tag": tag})
    rep.sample({"end_to_end": meta[0]["what"], "rc": results[0]["rc"], "Foul": (results[0]["result"] or {}).get("Foul")})
    rep.obligation("K-C03a: parser + real collector loop vs model (verdict, tallies, early exit) on %d cases" % n_a, "K", not kdis, json.dumps(kdis[:2], default=str)[:1800])
    known_o = [f for f in ofail if rep.match_known(f["tag"]) is not None]
    new_o = [f for f in ofail if rep.match_known(f["tag"]) is None]
    rep.obligation("O-C03: last-clause-wins on the real parser; exit status / Foul of the real binary on %d plays = specification%s" % (
                       len(plays), "; the inputs of the known findings excepted (they fail as recorded: %s)" % ", ".join(sorted({json.dumps(f["tag"], sort_keys=True) for f in known_o})) if known_o else ""),
                   "O", not new_o, json.dumps(new_o[:2], default=str)[:1800])
    seen = set()
    for f in ofail:
        k = json.dumps(f["tag"], sort_keys=True)
        if k in seen:
            continue
        seen.add(k)
        rep.violation(f.get("what") or f.get("problem") or "interpretation of %s %s" % (f.get("auditor"), f.get("result")), f, tags=f["tag"])
    if not new_o:
        # (failures that match a known finding do not hide a broken proof or a disagreement)
        if not ok:
            rep.violation("proof obligations of C03 no longer check", {"broken_theorems": info["failed"], "lean_output": info["output"][-3000:]}, nofail=True)
        elif kdis:
            rep.violation("correspondence K-C03a disagrees", {"broken": "K-C03a", "disagreements": kdis[:5]}, nofail=True)
    impl.close()
    model.close()
    return rep.finish("cd lean && lake build ShkModel.Props.C03 && #print axioms",
                      "in-process: random interleavings of audience mentions, interpretation clauses (all three modes, both results, shorthand, overriding) and report streams, with and without -S; end-to-end: count shapes x 3x3 modes x -S, overriding sequences with two auditors, one failing command per site")
