"""C12 — results land in one run directory and are kept or erased as documented.

Claim level: PARTIAL.  Proved (Lean, Props/C12.lean) about the models of Model/Paths.lean: the
`latest` link resolves to the run directory for every -o argument (path algebra of
filepath.Clean/Join/Abs + the kernel's rule for a relative symbolic link), the survive table of
run()'s deferred steps, the [MinTime, MaxTime] normalisation of assemble.  Tied to the real code by
  K-C12a  filepath.Clean / filepath.Join (what prepareDirs is written with) vs the model's clean/join,
  K-C12b  the real prepareDirs run in-process from a scratch current directory on generated -o shapes:
          text of the link and where it resolves vs the model,
  K-C12c  the flag matrix {-k,--clear,--disable-plots,-q} x {fouled,clean} x {out, a/b/out, absolute, .}
          x {repeat, none} with the real binary: what is left on disk / exit status / Foul flag vs runEnd,
  O-C12   the statements of the property evaluated on the real tree (Lean spec functions surviveSpec,
          rangeSpec through the driver; link resolution, file existence in Python).
Trusted, not modelled: the filesystem and the kernel's path walk (no directory on the way is a
symbolic link), bash, what gnuplot would do with the scripts (it is not installed here; its absence is
not an error for the program).  Errors raised *after* the Foul flag is fixed (plot files, upload) are
outside the property's quantifier; the model states what the code does then
(foul_flag_misses_late_errors) and K-C12d checks the real program agrees."""
import json
import os
import re
import shutil
import stat
from .common import *
from . import e2e

PROP = "C12"

PLAY = """title results <of> a "play" & more \\u003c
role r
  :ok echo hello; touch notes.txt 'notes.txt~' '#notes.txt#' '#draft~' "$HOME/.toolrc-$(basename $PWD)"; [ -e pipe ] || mkfifo pipe; mkdir -p rel; ln -sfn rel current; ln -sf notes.txt last.txt
  :bad false
  :slow sleep 0.05; echo slept; printf '\\u003cb\\u003e \\u0026 <i>"q"</i> & \\\\ done\\n'
  spotlight while true; do echo "v $RANDOM"; echo "e boo"; sleep 0.02; done
  signal v scalar at (?P<ts_now>)v (?P<scalar>\\d+)
  signal e event at (?P<ts_now>)e (?P<event>\\w+)
  signal z scalar at (?P<ts_now>)never-printed (?P<scalar>\\d+)
end
cast
  a plays r
  b* play 2 r
end
script
  tempo 30ms
  scene x entails for a: %(first)s
  scene f entails for a: %(last)s
  scene y entails for every r: ok
  scene z entails for b1: slow
  scene m mood starts blue
  storyline xm y+z yz f
%(repeat)send
audience
  bob watches a v
  bob watches a z
  bob watches every r e
  carl audits throughout
  carl expects always: [a v] %(pred)s
  carl watches b2 v
end
"""
# a server whose clock runs behind: the first thing the collector sees carries a negative time
PASTPLAY = """role srv
  :wait sleep 0.5
  :ok echo hello
  spotlight echo "$(date -u -d '%(lag)d seconds ago' +%%Y-%%m-%%dT%%H:%%M:%%SZ) load 3"; sleep 0.15; echo "$(date -u -d '%(lag2)d seconds ago' +%%Y-%%m-%%dT%%H:%%M:%%SZ) load 4"; sleep 30
  signal load scalar at ^(?P<ts_rfc3339>) load (?P<scalar>\\d+)$
end
cast
  s plays srv
end
script
  tempo 100ms
  scene w entails for s: wait
  scene o entails for s: ok
  storyline wo
end
audience
  watcher watches s load
end
"""
REPEAT = "  repeat from z\n  repeat 2 times\n"
# the last recorded time is a sample of a variable nobody plots: the only auditor stops auditing early and reads `t`
# without watching it, so the final round records `t` in csv/chk..t.csv and nothing else happens at that instant
QUIETEND = """role doer
  :work echo "value 1" >>out.log; sleep 0.3
  spotlight touch out.log; tail -F out.log
  signal v scalar at (?P<ts_now>)value (?P<scalar>\\d+)
end
cast
  bob plays doer
end
script
  tempo 400ms
  scene a entails for bob: work
  storyline a.a.a
end
audience
  chk watches bob v
  chk audits only while t < 0.5
  chk expects always: [bob v] == 1
end
"""
# the repeated act holds no action and no mood: nothing but the act starts themselves is recorded during it (fix c9d1f38)
IDLEPLAY = """role r
  :tick true
end
cast
  a plays r
end
script
  tempo 600ms
  scene p entails for a: tick
  storyline p .
  repeat from [.]
  repeat 3 times
end
"""
FLAGS = ["-k", "--clear", "--disable-plots", "-q"]
OUTDIRS = ["out", "a/b/out", "ABS", "."]

MINI = "role r\n  :ok true\n  cleanup true\nend\ncast\n  a plays r\n  b* play 2 r\nend\nscript\n  tempo 10ms\n  scene x entails for a: ok\n  storyline x\nend\n"


def gen_path(rng):
    comps = [rng.pick(["a", "b", "out", "x.y", "...", "", ".", "..", "d-1", "..a"]) for _ in range(rng.range(0, 6))]
    s = "/".join(comps)
    if rng.chance(1, 3):
        s = "/" + s
    if rng.chance(1, 6):
        s += "/"
    return s


def gen_outdir(rng, absroot):
    """-o shapes that stay inside the scratch area when walked from <scratch>/w/cwd"""
    k = rng.below(12)
    nm = lambda: rng.pick(["out", "res", "o.1", "data", "x"])
    if k == 0:
        return "."
    if k == 1:
        return nm()
    if k == 2:
        return "/".join(nm() for _ in range(rng.range(2, 4)))
    if k == 3:
        return absroot + "/" + "/".join(nm() for _ in range(rng.range(1, 3)))
    if k == 4:
        return "./" + nm()
    if k == 5:
        return nm() + "/"
    if k == 6:
        return nm() + "/../" + nm()
    if k == 7:
        return nm() + "//" + nm()
    if k == 8:
        return "../" + nm()
    if k == 9:
        return nm() + "/./" + nm() + "/."
    if k == 10:
        return "../../w/" + nm()
    return absroot + "//" + nm() + "/../" + nm() + "/"


def csv_times(csvs):
    ts = []
    for name, txt in csvs.items():
        for l in txt.splitlines():
            m = re.match(r"^(-?\d+(?:\.\d+)?)\s", l)
            if m:
                ts.append(float(m.group(1)))
    return ts


def artifact_paths(arts, acc):
    for a in arts or []:
        if a.get("Path"):
            acc.append(a["Path"])
        artifact_paths(a.get("children"), acc)
    return acc


def gp_ranges(rundir):
    """(script, xmin, xmax, act line positions) of every plot script"""
    res = []
    pd = os.path.join(rundir, "plots")
    if not os.path.isdir(pd):
        return res
    for f in sorted(os.listdir(pd)):
        if not f.endswith(".gp"):
            continue
        txt = open(os.path.join(pd, f)).read()
        m = re.search(r"^set xrange \[(-?[\d.]+):(-?[\d.]+)\]$", txt, re.M)
        if m:
            res.append((f, float(m.group(1)), float(m.group(2)),
                        [float(a) for a in re.findall(r"^set arrow from (-?[\d.]+), graph 0", txt, re.M)]))
    return res


def gp_files(rundir):
    """(script, named file) for every data file / loaded script named in plots/*.gp"""
    res = []
    pd = os.path.join(rundir, "plots")
    if not os.path.isdir(pd):
        return res
    for f in sorted(os.listdir(pd)):
        if not f.endswith(".gp"):
            continue
        txt = open(os.path.join(pd, f)).read()
        for m in re.finditer(r"^\s*'([^']+)' using", txt, re.M):
            res.append((f, m.group(1)))
        for m in re.finditer(r"^load '([^']+)'", txt, re.M):
            res.append((f, m.group(1)))
    return res


FAKE_SCP = """#!/bin/bash
# stands in for scp: copies the run directory next to the play
if [ "${VERIF_SCP_FAIL:-}" = signal ]; then
  # the upload tool (and the shell that runs it, when that shell did not exec it) dies from a signal
  case "$(cat /proc/$PPID/comm 2>/dev/null)" in bash|sh|dash) kill -KILL $PPID;; esac
  kill -KILL $$
fi
if [ -n "${VERIF_SCP_FAIL:-}" ]; then echo "scp: connection refused" >&2; exit 1; fi
src="$2"
mkdir -p "$VERIF_SCP_DEST"
cp -r "$src" "$VERIF_SCP_DEST/"
"""


def run(tier, seed):
    rep = Report(PROP, tier, seed, "proof")      # claim: partial, see the module text and `assumptions`
    rep.assumptions = [
        "the kernel's path walk is modelled lexically: no directory on the way to the output directory is a symbolic link (the scratch area is checked for that)",
        "filesystem, bash and os.RemoveAll/Symlink semantics are trusted; gnuplot is not installed (the program only warns), so plot()'s own error path is not exercised end-to-end",
        "an error raised after assemble() (plot files, upload) leaves Foul=false with exit status 1: outside the property's quantifier, modelled (foul_flag_misses_late_errors) and observed (K-C12d)",
        "recorded times are read back from the CSV files (4 decimals): containment is checked with half a unit of slack; mood changes have no CSV row"]
    try:
        build_go()
        build_driver()
    except BuildError as e:
        rep.obligation("build", "K", False, e.output)
        rep.violation("build failed: " + e.what, {"output": e.output[-4000:], "broken": "K-C12 (build)"}, nofail=True)
        return rep.finish("./check C12", "n/a")
    impl, model = Impl(), Model()
    ok, info = standard_proof_step(rep, PROP, thorough=(tier == "thorough"))
    rng = SplitMix(seed)
    kdis, ofail = [], []

    # ---- K-C12a: Clean / Join -----------------------------------------------------------------
    n_a = 3000 if tier == "quick" else 60000
    paths = ["", ".", "..", "/", "//", "/..", "a/..", "a/../..", "../a", "/a/../..", "a//b/", "./a", "a/./b/.", "out", "a/b/out"]
    paths += [gen_path(rng) for _ in range(n_a)]
    joins = [(rng.pick([p for p in paths[:40] if p] + [gen_path(rng) or "q"]), rng.pick(["latest", "20260930043337", "artifacts", "x/y", "../z", "."] + [gen_path(rng)])) for _ in range(n_a // 3)]
    joins = [(a, b) for a, b in joins if a != "" and not (b.startswith("/") and False)]
    r = impl.call("pathops", Paths=paths, Joins=[list(j) for j in joins])
    mcl = model.ask_many(["C12 clean " + hexs(p) for p in paths])
    mjn = model.ask_many(["C12 join %s %s" % (hexs(a), hexs(b)) for a, b in joins])
    for p, g, m in zip(paths, r.get("clean") or [], mcl):
        rep.case(("clean", p))
        rep.count("clean:" + ("abs" if p.startswith("/") else "rel") + (":dotdot" if ".." in p.split("/") else ""))
        if m is None or not m.startswith("x") or unhex(m) != g:
            kdis.append({"op": "filepath.Clean", "path": p, "impl": g, "model": m and m.startswith("x") and unhex(m)})
    for (a, b), g, m in zip(joins, r.get("join") or [], mjn):
        rep.case(("join", a, b))
        rep.count("join")
        if m is None or not m.startswith("x") or unhex(m) != g:
            kdis.append({"op": "filepath.Join", "a": a, "b": b, "impl": g, "model": m and m.startswith("x") and unhex(m)})
    if not r.get("clean"):
        kdis.append({"op": "pathops", "impl": r})
    rep.obligation("K-C12a: filepath.Clean on %d paths, filepath.Join on %d pairs vs model" % (len(paths), len(joins)), "K", not kdis, json.dumps(kdis[:3]))
    na = len(kdis)

    # ---- K-C12b / O: the real prepareDirs from a scratch current directory ------------------------
    link_fail = []
    with Scratch("verif-c12-") as scratch:
        scratch = os.path.realpath(scratch)
        n_b = 150 if tier == "quick" else 3000
        shapes = ["out", "a/b/out", ".", scratch + "/abs0/out", "./out", "out/", "a/../out", "../sib", "a//b", "a/./b/."]
        shapes += [gen_outdir(rng, scratch + "/abs%d" % i) for i in range(n_b)]
        for n, o in enumerate(shapes):
            cwd = os.path.join(scratch, "w%d" % n, "cwd")
            os.makedirs(cwd)
            # (a/../out needs `a` to exist for the kernel; MkdirAll cleans the path first, so create it)
            parts = o.split("/")
            for i, c in enumerate(parts):
                if c == ".." and i > 0 and parts[i - 1] not in ("", ".", ".."):
                    os.makedirs(os.path.normpath(os.path.join(cwd, "/".join(parts[:i]))), exist_ok=True)
            sub = "%014d" % (20260930000000 + n)
            if n % 50 == 7:
                sub = rng.pick(["", "."])
                # without a run sub-directory the artifacts land in <o> itself: it must not be shared with another case
                o = rng.pick(["nosub%d", "x/nosub%d", "./nosub%d/", scratch + "/absns%d"]) % n
                parts = o.split("/")
            # what sits at <o>/latest from earlier runs: nothing, the link of a run that is still there, the link of
            # an erased run (--clear, upload, by hand), a file, an empty or a non-empty directory
            prev = rng.pick(["absent"] * 4 + ["live", "live", "dangling", "dangling", "dangling", "file", "emptydir", "fulldir"])
            odir = os.path.normpath(os.path.join(cwd, o))
            slot = os.path.join(odir, "latest")
            if os.path.lexists(slot):       # an output directory shared with an earlier case: its link is the previous state
                prev = (("live" if os.path.exists(slot) else "dangling") if os.path.islink(slot) else
                        ("fulldir" if os.listdir(slot) else "emptydir") if os.path.isdir(slot) else "file")
            elif prev != "absent":
                os.makedirs(odir, exist_ok=True)
                if prev in ("live", "dangling"):
                    os.symlink("20250101000000", slot)
                    if prev == "live":
                        os.makedirs(os.path.join(odir, "20250101000000"))
                elif prev == "file":
                    open(slot, "w").write("x")
                else:
                    os.makedirs(slot + ("/inner" if prev == "fulldir" else ""))
            rep.count("prepareDirs:previous latest " + prev)
            r = impl.call("prepdirs", Args={"Text": MINI}, Cwd=cwd, DataDir=o, SubDir=sub)
            m = model.ask("C12 dirs new %s %s %s" % (hexs(cwd), hexs(o), hexs(sub)))
            mslot = model.ask("C12 slot " + prev)
            if mslot == "error" or (r.get("err") and prev == "fulldir"):
                if not (mslot == "error" and r.get("err")):
                    kdis.append({"op": "prepareDirs", "o": o, "previous latest": prev, "impl err": r.get("err"), "model": mslot})
                continue
            if mslot != "replaced":
                kdis.append({"op": "prepareDirs slot", "previous latest": prev, "model": mslot})
                continue
            shape = ("absolute" if o.startswith("/") else "dot" if o == "." else "nested" if "/" in o.strip("/") else "relative")
            rep.case(("dirs", o, sub))
            rep.count("prepareDirs:-o " + shape + (":dotdot" if ".." in parts else "") + (":no-subdir" if sub in ("", ".") else ""))
            if r.get("harnessError") or r.get("err") or r.get("panicked") or m is None or not m.startswith("run="):
                kdis.append({"op": "prepareDirs", "o": o, "sub": sub, "impl": {k: v for k, v in r.items() if k != "scripts"}, "model": m})
                continue
            mm = {kv.split("=")[0]: unhex(kv.split("=")[1]) for kv in m.split(" ")}
            if r.get("linkText") != mm["target"] or r.get("resolved") != mm["resolved"] or r.get("absRun") != mm["absrun"]:
                kdis.append({"op": "prepareDirs", "cwd": cwd, "o": o, "sub": sub,
                             "impl": {"linkText": r.get("linkText"), "resolved": r.get("resolved"), "resolveErr": r.get("resolveErr"), "absRun": r.get("absRun")},
                             "model": {"target": mm["target"], "resolved": mm["resolved"], "absrun": mm["absrun"]}})
            # O: <o>/latest resolves to the run directory
            if r.get("resolved") != r.get("absRun") or not r.get("runIsDir"):
                link_fail.append({"call": "prepareDirs in-process", "cwd": cwd, "-o": o, "run id": sub, "previous latest": prev, "link text": r.get("linkText"),
                                  "resolves to": r.get("resolved") or r.get("resolveErr"), "run directory": r.get("absRun"),
                                  "tag": {"kind": "latest", "outdir": "absolute" if o.startswith("/") else "relative"}})
        rep.sample({"prepareDirs": {"-o": shapes[1], "model": model.ask("C12 dirs new %s %s %s" % (hexs("/w"), hexs(shapes[1]), hexs("20260930000001")))}})
        rep.obligation("K-C12b: real prepareDirs (link text, resolution, absolute run directory) vs model on %d -o shapes" % len(shapes), "K",
                       len(kdis) == na, json.dumps(kdis[na:na + 2])[:1800])
        nb = len(kdis)

        # ---- K-C12c / O: the flag matrix with the real binary ------------------------------------
        combos = []
        for fl in range(16):
            for fouled in (False, True):
                for od in OUTDIRS:
                    for rpt in (False, True):
                        combos.append((fl, fouled, od, rpt))
        if tier == "quick":
            # a seed-dependent quarter that still has every (flag set, outdir) and every (fouled, repeat, outdir)
            combos = [c for i, c in enumerate(combos) if ((c[0] + OUTDIRS.index(c[2]) + 2 * c[1] + c[3] + seed) % 4 == 0) or (c[0] in (0, 15) and c[3] == (seed % 2 == 0))]
        plays, meta = [], []
        for n, (fl, fouled, od, rpt) in enumerate(combos):
            args = [f for i, f in enumerate(FLAGS) if fl >> i & 1]
            oarg = od if od != "ABS" else os.path.join(scratch, "e2e-abs-%d" % n, "o")
            # a fouled play: a failing action in the last act (even flag sets) or a disappointed auditor (odd ones)
            how = None if not fouled else ("action" if fl % 2 == 0 else "audit")
            text = PLAY % {"first": "ok", "last": "bad" if how == "action" else "ok", "pred": "< 0" if how == "audit" else ">= 0", "repeat": REPEAT if rpt else ""}
            plays.append(e2e.Play(text, args=args, outdir_arg=oarg, timeout=60, keep=True))
            meta.append({"flags": args, "fouled": fouled, "outdir": od, "oarg": oarg, "repeat": rpt, "upload": None, "config": text, "how": how})
        # a play with a repeat section that is fouled BEFORE the repeated act starts: result.js has no Repeat
        # section then and no zoomed plot is written, so no plot script may name one
        for n, args in enumerate(([], ["-k"], ["-q"])):
            text = PLAY % {"first": "bad", "last": "ok", "pred": ">= 0", "repeat": REPEAT}
            od = OUTDIRS[n % 2]
            plays.append(e2e.Play(text, args=args, outdir_arg=od, timeout=60, keep=True))
            meta.append({"flags": args, "fouled": True, "outdir": od, "oarg": od, "repeat": False, "upload": None, "config": text, "how": "early action"})
        # the first recorded time is negative and the smallest (a spotlight reporting dates of a lagging clock before
        # the first action ends): the time range must still contain it
        for n, (args, lag) in enumerate(((["-q"], 5), (["-k"], 90), ([], 3), (["--disable-plots"], 4))):
            text = PASTPLAY % {"lag": lag, "lag2": lag - 1}
            plays.append(e2e.Play(text, args=args, outdir_arg="out", timeout=60, keep=True))
            meta.append({"flags": args, "fouled": False, "outdir": "out", "oarg": "out", "repeat": False, "upload": None, "config": text, "how": None, "past": True})
        for n, args in enumerate((["--disable-plots"], [])):
            plays.append(e2e.Play(QUIETEND, args=args, outdir_arg="out", timeout=60, keep=True))
            meta.append({"flags": args, "fouled": False, "outdir": "out", "oarg": "out", "repeat": False, "upload": None, "config": QUIETEND, "how": None, "quiet_end": True})
        for n, args in enumerate(([], ["-k"])):
            plays.append(e2e.Play(IDLEPLAY, args=args, outdir_arg="out", timeout=60, keep=True))
            meta.append({"flags": args, "fouled": False, "outdir": "out", "oarg": "out", "repeat": True, "upload": None, "config": IDLEPLAY, "how": None, "idle": True})
        # upload rows: a stand-in `scp` first on the PATH (documented: --upload-url implies --clear)
        bindir = os.path.join(scratch, "bin")
        os.makedirs(bindir)
        with open(os.path.join(bindir, "scp"), "w") as f:
            f.write(FAKE_SCP)
        os.chmod(os.path.join(bindir, "scp"), 0o755)
        for n, (k, fouled, fail) in enumerate([(k, fo, fa) for k in (False, True) for fo in (False, True) for fa in (False, "1", "signal")]):
            dest = os.path.join(scratch, "uploaded-%d" % n)
            env = {"PATH": bindir + ":" + os.environ["PATH"], "VERIF_SCP_DEST": dest}
            if fail:
                env["VERIF_SCP_FAIL"] = fail
            args = (["-k"] if k else []) + ["--upload-url", "scp://host/results"]
            text = PLAY % {"first": "ok", "last": "bad" if fouled else "ok", "pred": ">= 0", "repeat": ""}
            plays.append(e2e.Play(text, args=args, outdir_arg="out", timeout=60, keep=True, env=env))
            meta.append({"flags": args, "fouled": fouled, "outdir": "out", "oarg": "out", "repeat": False,
                         "upload": {"fails": fail, "dest": dest}, "config": text})
        # an explicit --clear=false next to an upload URL: the upload does not imply --clear then; and --clear=false alone
        for n, (args0, fouled, withup) in enumerate(((["--clear=false"], False, True), (["--clear=false", "-k"], False, True),
                                                     (["--clear=false"], True, True), (["--clear=false"], False, False),
                                                     (["--clear"], False, True))):
            dest = os.path.join(scratch, "uploaded-x%d" % n)
            env = {"PATH": bindir + ":" + os.environ["PATH"], "VERIF_SCP_DEST": dest}
            args = args0 + (["--upload-url", "scp://host/results"] if withup else [])
            text = PLAY % {"first": "ok", "last": "bad" if fouled else "ok", "pred": ">= 0", "repeat": ""}
            plays.append(e2e.Play(text, args=args, outdir_arg="out", timeout=60, keep=True, env=env))
            meta.append({"flags": args, "fouled": fouled, "outdir": "out", "oarg": "out", "repeat": False,
                         "upload": {"fails": False, "dest": dest} if withup else None, "config": text})
        results = e2e.run_many(plays, workers=12)
        late = []
        for p, r, m in zip(plays, results, meta):
            fl = m["flags"]
            up = m["upload"]
            rep.case(("e2e", tuple(fl), m["fouled"], m["outdir"], m["repeat"], json.dumps(up)))
            rep.count("e2e:" + ("upload" if up else "matrix") + (":fouled" if m["fouled"] else ":clean"))
            if m.get("how"):
                rep.count("e2e:fouled by " + m["how"])
            for f in fl:
                if f.startswith("-") and not f.startswith("--upload"):
                    rep.count("e2e:flag " + f)
            rep.count("e2e:-o " + m["outdir"])
            rep.count("e2e:" + ("repeat" if m["repeat"] else "no-repeat"))
            problems = []
            failed = r["rc"] != 0
            cwd, odir = r["cwd"], r["odir"]
            if r["timed_out"]:
                problems.append(("timed out", {"kind": "timeout"}))
            # model prediction
            bit = lambda x: "1" if x else "0"
            clr = "1" if "--clear" in fl else "2" if "--clear=false" in fl else "0"
            faults = (m["fouled"], False, False, bool(up and up["fails"]))
            mo = model.ask("C12 survive %s %s %s %s %s %s %s %s" % (bit("-k" in fl), clr, bit(up is not None), bit("--disable-plots" in fl),
                                                                   bit(faults[0]), bit(faults[1]), bit(faults[2]), bit(faults[3])))
            mo = dict(kv.split("=") for kv in (mo or "").split(" ") if "=" in kv)
            # observed
            link = r["latest"]
            runid = os.path.basename(link) if link else None
            rundir = os.path.join(odir, runid) if runid and re.fullmatch(r"\d{14}", runid) else None
            run_kept = bool(rundir and os.path.isdir(rundir))
            art_kept = bool(run_kept and os.path.isdir(os.path.join(rundir, "artifacts")))
            gps = sorted(os.listdir(os.path.join(rundir, "plots"))) if run_kept and os.path.isdir(os.path.join(rundir, "plots")) else []
            res_js = r["result"] if run_kept else None
            obs = {"exit": bit(failed), "run": bit(run_kept), "art": bit(art_kept), "plots": bit("plot.gp" in gps and "runme.gp" in gps),
                   "result": bit(run_kept and res_js is not None and "_malformed" not in res_js and os.path.isfile(os.path.join(rundir, "index.html"))),
                   "foul": bit(bool(res_js and res_js.get("Foul"))) if res_js else mo.get("foul")}
            if m["repeat"] and run_kept and "--disable-plots" not in fl and "lastplot.gp" not in gps:
                problems.append(("repeat section but no plots/lastplot.gp", {"kind": "plots"}))
            diff = {k: (obs[k], mo.get(k)) for k in obs if obs[k] != mo.get(k)}
            if diff:
                kdis.append({"op": "run end", "flags": fl, "fouled": m["fouled"], "-o": m["outdir"], "repeat": m["repeat"], "upload": up,
                             "observed vs model": diff, "rc": r["rc"], "stderr": (r["stderr"] or "")[-600:]})
            # O1: everything lands under <o>/<run id>; latest is the only other thing created
            allowed = {"play.cfg"}
            stray = []
            for root in {cwd, odir}:
                for t in e2e.read_tree(root) if os.path.isdir(root) else []:
                    full = os.path.join(root, t)
                    if rundir and (full == rundir or full.startswith(rundir + os.sep)):
                        continue
                    if full == os.path.join(odir, "latest") or (root == cwd and t in allowed):
                        continue
                    if up and full.startswith(up["dest"]):
                        continue
                    stray.append(full)
            if stray:
                problems.append(("files outside the run directory: %s" % stray[:4], {"kind": "stray"}))
            if len(r["rundirs"]) > 1:
                problems.append(("more than one run directory: %s" % r["rundirs"], {"kind": "stray"}))
            # O2: latest resolves to the run directory
            shape = "absolute" if m["outdir"] == "ABS" else "relative"
            if link is None or rundir is None:
                problems.append(("no usable `latest` link (%r)" % link, {"kind": "latest", "outdir": shape}))
            else:
                lexical = os.path.normpath(os.path.join(odir, link))
                if run_kept and r["latest_resolves"] != os.path.realpath(rundir):
                    problems.append(("-o %s: %s/latest -> %r does not resolve to the run directory %s (resolves to %s)" % (m["oarg"], m["oarg"], link, rundir, r["latest_resolves"] or "nothing: dangling"),
                                     {"kind": "latest", "outdir": shape}))
                elif not run_kept and lexical != rundir:
                    problems.append(("-o %s: latest -> %r names %s, not the (erased) run directory %s" % (m["oarg"], link, lexical, rundir), {"kind": "latest", "outdir": shape}))
            # O3: survive table in terms of the exit status (Lean spec)
            play_failed = bool(res_js.get("Foul")) if (res_js and "_malformed" not in res_js) else (failed and not (up and up["fails"] and not m["fouled"]))
            o3 = model.ask("C12 oracle-survive %s %s %s %s %s %s %s %s" % (bit("-k" in fl), clr, bit(up is not None), bit("--disable-plots" in fl),
                                                                         bit(play_failed), bit(failed), bit(art_kept), bit(run_kept)))
            if o3 != "ok":
                problems.append(("flags %s, exit status %d: artifacts %s, run directory %s — %s" % (fl, r["rc"], "kept" if art_kept else "gone", "kept" if run_kept else "erased", o3), {"kind": "survive"}))
            if failed != (m["fouled"] or bool(up and up["fails"])):
                problems.append(("exit status %d for a %s play" % (r["rc"], "fouled" if m["fouled"] else "clean"), {"kind": "exit"}))
            if run_kept:
                # O4: result.js
                if res_js is None or "_malformed" in (res_js or {}):
                    problems.append(("result.js missing or not `var result = <JSON>`: %s" % (res_js,), {"kind": "result.js"}))
                else:
                    if bool(res_js.get("Foul")) != failed:
                        if up and up["fails"] and not m["fouled"]:
                            late.append({"flags": fl, "rc": r["rc"], "Foul": res_js.get("Foul")})
                        else:
                            problems.append(("result.js Foul=%s but exit status %d" % (res_js.get("Foul"), r["rc"]), {"kind": "foul-flag"}))
                    mn, mx = res_js.get("MinTime"), res_js.get("MaxTime")
                    ts = csv_times(r["csv"])
                    rep.count("e2e:recorded-times", len(ts))
                    if not (isinstance(mn, (int, float)) and isinstance(mx, (int, float))):
                        problems.append(("MinTime/MaxTime missing", {"kind": "range"}))
                    else:
                        import math
                        lo, hi = math.floor(mn * 10000 - 0.5), math.ceil(mx * 10000 + 0.5)
                        o4 = model.ask("C12 oracle-range %d %d %s" % (lo, hi, ",".join(str(round(t * 10000)) for t in ts) or "-"))
                        if o4 != "ok" or not (mn <= 0) or not (mn + 1 <= mx):
                            problems.append(("time range [%s, %s] vs recorded times: %s" % (mn, mx, o4), {"kind": "range"}))
                        if not ts:
                            problems.append(("no recorded time at all (generator problem)", {"kind": "generator"}))
                    missing = [a for a in artifact_paths(res_js.get("Artifacts"), []) if not os.path.exists(os.path.join(rundir, a))]
                    if missing:
                        problems.append(("result.js names files that do not exist: %s" % missing[:5], {"kind": "artifact-tree"}))
                    rep.count("e2e:artifact-entries", len(artifact_paths(res_js.get("Artifacts"), [])))
                    if m["repeat"] != (res_js.get("Repeat") is not None):
                        problems.append(("Repeat section %s" % res_js.get("Repeat"), {"kind": "generator"}))
                    rp = res_js.get("Repeat")
                    if rp and isinstance(mn, (int, float)) and isinstance(mx, (int, float)):
                        # the start of the repeated section is a recorded time too
                        rep.count("e2e:repeat-sections")
                        if not (mn <= rp.get("StartTime", mn) <= mx) or rp.get("Duration", 0) < 0:
                            problems.append(("the repeated section starts at %s and lasts %s: outside the time range [%s, %s]"
                                             % (rp.get("StartTime"), rp.get("Duration"), mn, mx), {"kind": "range"}))
                for gpn, lo_, hi_, arrows_ in gp_ranges(rundir):
                    rep.count("e2e:plot-axes")
                    if not lo_ < hi_:
                        problems.append(("%s: set xrange [%s:%s] is empty or reversed" % (gpn, lo_, hi_), {"kind": "range"}))
                    elif gpn == "plot.gp" and [a for a in arrows_ if not lo_ <= a <= hi_]:
                        problems.append(("%s: act lines at %s outside the axis [%s:%s]" % (gpn, [a for a in arrows_ if not lo_ <= a <= hi_][:3], lo_, hi_), {"kind": "range"}))
                named = gp_files(rundir)
                rep.count("e2e:files-named-in-gp", len(named))
                gone = [(s, f) for s, f in named if not os.path.exists(os.path.join(rundir, "plots", f))]
                if gone:
                    problems.append(("plot scripts name files that do not exist: %s" % gone[:5], {"kind": "plots"}))
                if "--disable-plots" not in fl and not named:
                    problems.append(("plot scripts name no data file at all (generator problem)", {"kind": "generator"}))
            if up:
                # what was uploaded: a copy of the run directory made before it was erased
                copied = os.path.isdir(up["dest"]) and os.listdir(up["dest"])
                if not up["fails"] and not (copied and os.path.isfile(os.path.join(up["dest"], copied[0], "result.js"))):
                    problems.append(("upload did not receive the run directory with result.js", {"kind": "upload"}))
                if copied:
                    has_art = os.path.isdir(os.path.join(up["dest"], copied[0], "artifacts"))
                    rep.count("e2e:uploaded copy %s artifacts (%s, %s play)" % ("has" if has_art else "has no",
                                                                                 "-k" if "-k" in fl else "no -k", "fouled" if m["fouled"] else "clean"))
                    # the artifacts are erased (step 4 of the manual's "at the end of the play") BEFORE the upload (step 5):
                    # what is uploaded holds them iff the play was fouled or -k was given
                    if mo.get("upart") is not None and bit(has_art) != mo.get("upart"):
                        kdis.append({"op": "uploaded artifacts", "flags": fl, "fouled": m["fouled"], "observed": bit(has_art), "model": mo.get("upart")})
                    if has_art != (m["fouled"] or "-k" in fl):
                        problems.append(("the uploaded run directory %s the artifacts although the play was %s and -k was %sgiven" % (
                            "holds" if has_art else "lacks", "fouled" if m["fouled"] else "clean", "" if "-k" in fl else "not "), {"kind": "uploaded-artifacts"}))
            for what, tag in problems:
                ofail.append({"what": what, "tag": tag, "flags": fl, "fouled play": m["fouled"], "-o": m["oarg"], "repeat": m["repeat"], "upload": up,
                              "rc": r["rc"], "config": m["config"], "argv": r["argv"], "tree": [t for t in r["tree"] if "/logs/" not in t][:40],
                              "stderr": (r["stderr"] or "")[-800:]})
            p.cleanup()
        rep.count("e2e:late-error Foul=false exit=1 (upload fails, as modelled)", len(late))
        rep.sample({"e2e": {"flags": meta[0]["flags"], "-o": meta[0]["oarg"], "rc": results[0]["rc"], "latest": results[0]["latest"],
                            "tree": [t for t in results[0]["tree"] if "/logs/" not in t][:12]}})
        rep.obligation("K-C12c/d: exit status, Foul flag, run directory / artifacts / plots / result.js left by the real binary vs runEnd on %d plays (%d with a stand-in scp)" % (len(plays), 8),
                       "K", len(kdis) == nb, json.dumps(kdis[nb:nb + 2], default=str)[:1800])
    for f in link_fail:
        ofail.append(dict(f, what="-o %s (from %s): latest -> %r resolves to %s, the run directory is %s" % (f["-o"], f["cwd"], f["link text"], f["resolves to"], f["run directory"])))
    rep.obligation("O-C12: one run directory, `latest` resolves to it, survive table, Foul = (exit != 0), time range contains the recorded times, named files exist — on the real tree",
                   "O", not ofail, json.dumps(ofail[:2], default=str)[:1800])
    if ofail:
        seen = set()
        for f in ofail:
            k = json.dumps(f["tag"], sort_keys=True)
            if k in seen:
                continue
            seen.add(k)
            rep.violation(f["what"], dict(f, all_of_this_kind=[g["what"] for g in ofail if g["tag"] == f["tag"]][:12]), tags=f["tag"])
    else:
        if not ok:
            rep.violation("proof obligations of C12 no longer check", {"broken_theorems": info["failed"], "lean_output": info["output"][-3000:]}, nofail=True)
        elif kdis:
            rep.violation("correspondence K-C12 disagrees", {"broken": "K-C12", "disagreements": kdis[:6]}, nofail=True)
    impl.close()
    model.close()
    return rep.finish("cd lean && lake build ShkModel.Props.C12 && #print axioms",
                      "paths: fixed corner cases + random component strings (empty, ., .., names; absolute/relative; trailing slash); prepareDirs: 12 -o shape families from a scratch cwd incl. no-subdir; end-to-end: the matrix {-k,--clear,--disable-plots,-q} x {fouled,clean} x {out,a/b/out,absolute,.} x {repeat,none} (complete in thorough, a seed-dependent covering quarter in quick) + 12 upload rows (upload succeeds / exits 1 / is killed by a signal)",
                      exhaustive=(tier == "thorough"),
                      explanation="claim level: partial. Theorems cover the path algebra, the link resolution rule, the deferred steps of run() and the range normalisation as models; filesystem, kernel path walk and bash are trusted and exercised end-to-end (exhaustive refers to the flag matrix of the property's quantifier, run completely in the thorough tier)")
