"""Regenerates lean/ShkModel/Gen/ClauseRe.lean (and .build/clause_re.json) from the Go SOURCE of
REPO/pkg/cmd on every run: the translator harness/cmd/vregex finds every `var x = compileRe(...)`,
wraps the literal as func compileRe does, parses and simplifies it with regexp/syntax and prints the
tree in the Lean syntax of ShkModel/Model/Regex.lean.  The table is written to a scratch file first and only
replaces the old one when the translator succeeded: the model driver shared by ALL checks imports the table, so a
translator that fails (a construct the Lean syntax cannot express, a regexp that is not a literal) must not take
the other checks' driver down with it — C09 raises BuildError and reports the broken tie (naming the stale table).

Call after common.build_go() (which writes harness/go.mod)."""
import json
import os

from .common import BUILD, HARNESS, LEAN, REPO, GOENV, BuildError, sh, build_lock, write_if_changed

GEN_LEAN = os.path.join(LEAN, "ShkModel", "Gen", "ClauseRe.lean")
GEN_JSON = os.path.join(BUILD, "clause_re.json")


def build_regex_tables():
    """returns the table as a dict: wrapper, regexps [{name, source, wrapped, numcap, capnames, tree}], uses"""
    os.makedirs(BUILD, exist_ok=True)
    exe = os.path.join(BUILD, "vregex")
    tmp_lean = os.path.join(BUILD, "ClauseRe.lean.new")
    with build_lock():
        rc, out = sh(["go", "build", "-o", exe, "./cmd/vregex"], cwd=HARNESS, env=GOENV)
        if rc != 0:
            raise BuildError("the regexp translator does not build", out)
        for p in (tmp_lean, GEN_JSON):
            try:
                os.remove(p)
            except FileNotFoundError:
                pass
        rc, out = sh([exe, "-repo", REPO, "-lean", tmp_lean, "-json", GEN_JSON], env=GOENV)
        if rc != 0 or not os.path.exists(tmp_lean) or not os.path.exists(GEN_JSON):
            raise BuildError("the clause regexps of pkg/cmd cannot be translated into the Lean model (Gen/ClauseRe.lean is stale: it still holds the last table that could be translated)", out)
        write_if_changed(GEN_LEAN, open(tmp_lean).read())
    with open(GEN_JSON) as f:
        return json.load(f)
