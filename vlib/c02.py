"""C02 — activation periods are judged independently and are always closed."""
import json
from fractions import Fraction as F
from .common import *
from . import audgen as g
from . import gen_tables

PROP = "C02"
TEND = 1000
MODALITIES = ["always", "never", "not always", "eventually", "always eventually", "eventually always",
              "once", "twice", "thrice", "at most once"]


def gen_cond(rng, actors, computed):
    k = rng.below(10)
    if k < 3:
        return g.TRUE
    if k < 5:
        return ("bin", rng.pick(["eq", "ne"]), g.var("mood"), ("str", rng.pick(["red", "blue", "clear"])))
    if k < 6:
        return ("bin", rng.pick(["lt", "ge"]), g.var("t"), g.num(rng.range(2, 40)))
    if k < 8:
        return ("bin", rng.pick(["gt", "le"]), g.var("s", rng.pick(actors)), g.num(rng.range(0, 6)))
    if k < 9 and computed:
        return ("bin", "gt", g.var(rng.pick(computed)), g.num(rng.range(0, 8)))
    return ("bin", "and", ("bin", "ne", g.var("mood"), ("str", "clear")),
            ("bin", "gt", g.var("s", rng.pick(actors)), g.num(rng.range(0, 4))))


def gen_pred(rng, actors, computed):
    k = rng.below(12)
    s = g.var("s", rng.pick(actors))
    if k < 4:        # signals only
        return ("bin", rng.pick(["gt", "lt", "ge"]), s, g.num(rng.range(0, 8)))
    if k < 6:        # signal and time
        return ("bin", "and", ("bin", "gt", s, g.num(rng.range(0, 6))), ("bin", "ge", g.var("t"), g.num(0)))
    if k < 7:
        return ("bin", "lt", g.var("t"), g.num(rng.range(2, 60)))
    if k < 8:
        return ("bin", "lt", g.var("moodt"), g.num(rng.range(1, 20)))
    if k < 9:
        return ("bin", "eq", g.var("mood"), ("str", rng.pick(["red", "blue"])))
    if k < 11 and computed:
        return ("bin", rng.pick(["gt", "le"]), g.var(rng.pick(computed)), g.num(rng.range(0, 9)))
    return ("bin", "or", ("bin", "gt", s, g.num(rng.range(2, 8))), ("bin", "eq", g.var("mood"), ("str", "red")))


def gen_chained_config(rng):
    """an auditor whose activation condition reads a variable that an earlier, always-active member computes from one
    actor's signal, while its predicate reads another actor's signal: the two arrive in different rounds"""
    members = [{"name": "m0", "cond": g.TRUE, "assigns": [{"target": "x0", "mode": "single", "n": 0,
                "expr": rng.pick([g.var("s", "a"), ("bin", "add", g.var("s", "a"), g.num(rng.range(0, 2)))])}], "expect": None, "watches": []},
               {"name": "m1", "cond": ("bin", "gt", g.var("x0"), g.num(rng.range(1, 6))), "assigns": [],
                "expect": (rng.pick(MODALITIES), ("bin", rng.pick(["gt", "lt", "ge"]), g.var("s", "b"), g.num(rng.range(0, 8)))), "watches": []}]
    if rng.chance(1, 3):
        members.append({"name": "m2", "cond": gen_cond(rng, ["a", "b"], ["x0"]), "assigns": [], "expect": (rng.pick(MODALITIES), gen_pred(rng, ["a", "b"], ["x0"])), "watches": []})
    return {"signals": [("s", "scalar")], "actors": ["a", "b"], "members": members}


def gen_config(rng):
    if rng.chance(1, 6):
        return gen_chained_config(rng)
    actors = ["a"] if rng.chance(1, 2) else ["a", "b"]
    nm = rng.range(1, 4)
    members, computed = [], []
    for i in range(nm):
        m = {"name": "m%d" % i, "cond": gen_cond(rng, actors, computed), "assigns": [], "expect": None, "watches": []}
        if rng.chance(1, 3):
            tgt = "x%d" % i
            e = rng.pick([("bin", "add", g.var("s", rng.pick(actors)), g.num(rng.range(0, 3))),
                          g.var("s", rng.pick(actors)),
                          ("bin", "mul", g.var("t"), g.num(1))])
            m["assigns"].append({"target": tgt, "mode": "single", "n": 0, "expr": e})
        if rng.chance(5, 6) or not m["assigns"]:
            m["expect"] = (rng.pick(MODALITIES), gen_pred(rng, actors, computed))
        members.append(m)
        computed += [a["target"] for a in m["assigns"]]
    return {"signals": [("s", "scalar")], "actors": actors, "members": members}


def watched_actors(cfg):
    """actors whose signal somebody mentions: the spotlight only forwards signals that have a sink"""
    res = []
    for m in cfg["members"]:
        es = [m["cond"]] + [a["expr"] for a in m["assigns"]] + ([m["expect"][1]] if m["expect"] else [])
        for e in es:
            for (ac, sg) in g.deps(e):
                if ac and ac not in res:
                    res.append(ac)
        for (ac, sg) in m.get("watches", []):
            if ac and ac not in res:
                res.append(ac)
    return res


def gen_history(rng, cfg, n):
    evs, t = [], F(0)
    mood = "clear"
    actors = watched_actors(cfg)
    for _ in range(n):
        t += F(rng.range(1, 4), 2)
        if rng.chance(1, 4) or not actors:
            mood = rng.pick(["red", "blue", "clear", "red"])
            evs.append(("mood", t, mood))
        else:
            acts = [a for a in actors if rng.chance(2, 3)] or [actors[0]]
            evs.append(("sig", t, [("scalar", a, "s", F(rng.range(0, 9))) for a in acts]))
    return evs


def markers(stream, name):
    out = []
    for it in stream:
        if it[0] == "start" and it[1] == name:
            out.append("S")
        elif it[0] == "stop" and it[1] == name:
            out.append("E")
        elif it[0] == "rep" and it[2] == name:
            out.append(str(it[3]))
    return out


def _errs_at_start(always):
    """a later member whose `computes` cannot be evaluated in the start round (fix 88efe9c): the auditors started before
    it still get their end-of-period judgement"""
    bad = ("neg", g.var("mood")) if always else ("ite", ("bin", "gt", g.var("t"), g.num(500)), g.num(1), ("neg", g.var("mood")))
    return {"signals": [("s", "scalar")], "actors": ["a"], "members": [
        {"name": "m0", "cond": g.TRUE, "assigns": [], "expect": ("eventually", ("bin", "gt", g.var("t"), g.num(5000))), "watches": []},
        {"name": "m1", "cond": g.TRUE, "assigns": [{"target": "x", "mode": "single", "n": 0, "expr": bad}], "expect": None, "watches": []}]}


CORPUS = [
    (_errs_at_start(False), []),
    (_errs_at_start(True), []),
    (_errs_at_start(False), [("sig", F(1), [("scalar", "a", "s", F(2))])]),
    # `audits throughout` with a predicate over a signal that never arrives: the period is the whole play
    ({"signals": [("s", "scalar")], "actors": ["a"], "members": [
        {"name": "m0", "cond": g.TRUE, "assigns": [], "expect": ("eventually", ("bin", "gt", g.var("s", "a"), g.num(100))), "watches": []}]}, []),
    ({"signals": [("s", "scalar")], "actors": ["a", "b"], "members": [
        {"name": "m0", "cond": g.TRUE, "assigns": [], "expect": ("always", ("bin", "gt", g.var("s", "b"), g.num(1))), "watches": []},
        {"name": "m1", "cond": g.TRUE, "assigns": [], "expect": ("once", ("bin", "gt", g.var("s", "a"), g.num(1))), "watches": []}]},
     [("sig", F(1), [("scalar", "a", "s", F(2))]), ("mood", F(2), "red")]),
    # signal-only predicate: the period must still be closed at the end of the play
    ({"signals": [("s", "scalar")], "actors": ["a"], "members": [
        {"name": "m0", "cond": g.TRUE, "assigns": [], "expect": ("eventually", ("bin", "gt", g.var("s", "a"), g.num(100))), "watches": []}]},
     [("sig", F(1), [("scalar", "a", "s", F(1))]), ("sig", F(2), [("scalar", "a", "s", F(2))])]),
    # two periods of a mood-based auditor
    ({"signals": [("s", "scalar")], "actors": ["a"], "members": [
        {"name": "m0", "cond": ("bin", "eq", g.var("mood"), ("str", "red")), "assigns": [],
         "expect": ("once", ("bin", "gt", g.var("s", "a"), g.num(3))), "watches": []}]},
     [("mood", F(1), "red"), ("sig", F(2), [("scalar", "a", "s", F(5))]), ("mood", F(3), "clear"),
      ("sig", F(4), [("scalar", "a", "s", F(5))]), ("mood", F(5), "red"), ("sig", F(6), [("scalar", "a", "s", F(5))]),
      ("sig", F(7), [("scalar", "a", "s", F(7))]), ("mood", F(8), "blue")]),
]


def run(tier, seed):
    rep = Report(PROP, tier, seed, "proof")
    rep.assumptions = [
        "expressions are evaluated by govaluate (trusted); the model re-implements the fragment the generator uses",
        "the final round of the real loop runs at wall-clock time ~1000 s after the fake epoch; histories stay below 200 s",
        "a period's closing round (condition found false, or end of play) belongs to the period"]
    try:
        build_go()
        impl = Impl()
        gen_tables.regenerate(impl.call("automata"))
        build_driver()
    except BuildError as e:
        rep.obligation("build", "K", False, e.output)
        rep.violation("build failed: " + e.what, {"output": e.output[-4000:], "broken": "K-C02 (build)"}, nofail=True)
        return rep.finish("./check C02", "n/a")
    model = Model()
    ok, info = standard_proof_step(rep, PROP, thorough=(tier == "thorough"))
    rng = SplitMix(seed)
    kdis, ofail = [], []
    ncases = 400 if tier == "quick" else 8000
    cases = list(CORPUS)
    for _ in range(ncases):
        cfg = gen_config(rng)
        cases.append((cfg, gen_history(rng, cfg, rng.range(0, 12) if rng.chance(1, 3) else rng.range(10, 60))))
    for cfg, evs in cases:
        text = g.config_text(cfg)
        r = impl.call("audition", Args={"Parse": {"Text": text}, "Events": g.events_json(evs), "EpochOffset": float(TEND)})
        if r.get("Panicked") or r.get("harnessCrash") or (r.get("Err") or "").startswith("config:"):
            rep.count("harness-problem")
            kdis.append({"config": text, "problem": r.get("Err") or r.get("Panic") or "crash"})
            continue
        ms = model.ask(g.model_request(cfg, evs, TEND))
        if ms is None or ms.startswith("bad-op"):
            kdis.append({"config": text, "problem": "model: " + str(ms)})
            continue
        im, mo = g.parse_impl(r), g.parse_model(ms)
        if mo["abort"] == "unmodelled":
            rep.count("unmodelled")
            continue
        key = json.dumps([text, [str(e) for e in evs]])
        nper = sum(1 for it in im["stream"] if it[0] == "start")
        rep.case(key, nontrivial=nper > 0)
        rep.count("periods=%s" % (nper if nper < 5 else "5+"))
        rep.count("members=%d" % len(cfg["members"]))
        rep.count("events=%d0s" % (len(evs) // 10))
        if im["abort"] != "none":
            rep.count("impl-abort")
        d = g.stream_diff(im, mo, TEND, keep=lambda it: it[0] in ("start", "stop", "rep"))
        if d or (im["abort"] == "none") != (mo["abort"] == "none"):
            kdis.append({"config": text, "events": [str(e) for e in evs], "diff": d, "impl_err": im.get("err"), "model_abort": mo["abort"]})
            if im["abort"] != "none":
                # an evaluation error ends the audition: the final round is still due.  An auditor the real loop started
                # and left without its end-of-period judgement, although the final round (as the model runs it) closes it,
                # is a period that was never closed — a failing input, not only a disagreement
                for m in cfg["members"]:
                    mk, mm = markers(im["stream"], m["name"]), markers(mo["stream"], m["name"])
                    if mk and mk[-1] != "E" and "S" in mk and mm and mm[-1] == "E":
                        ofail.append({"config": text, "events": g.events_json(evs), "auditor": m["name"], "markers": ",".join(mk),
                                      "oracle": "FAIL the audition ended on an evaluation error (%s) and this auditor's open period never got its end-of-period judgement (the final round closes it: %s)"
                                                % (im.get("err"), ",".join(mm)), "shape": "left-open-by-an-evaluation-error", "open_at_end": True})
                        break
        # O: the bracket / fresh-start / closure specification on the REAL stream
        if im["abort"] == "none":
            for m in cfg["members"]:
                if not (m["expect"] or m["assigns"]):
                    continue
                mk = markers(im["stream"], m["name"])
                shape = "signal-only" if m["expect"] and all(a for a, _ in g.deps(m["expect"][1])) and all(a for a, _ in g.deps(m["cond"])) else "mixed"
                rep.count("auditor-deps:" + shape)
                if m["cond"] == g.TRUE and m["expect"] and (not mk or mk[0] != "S" or mk[-1] != "E"):
                    # `audits throughout`: one period, the whole play, whatever the predicate mentions
                    ofail.append({"config": text, "events": g.events_json(evs), "auditor": m["name"], "markers": ",".join(mk) or "-",
                                  "oracle": "FAIL an `audits throughout` auditor has one period spanning the play and gets its end-of-period judgement; markers: %s" % (",".join(mk) or "none"),
                                  "shape": "throughout-never-opened", "open_at_end": False})
                # a condition over the mood alone: its periods are the maximal stretches of the play in which the mood
                # satisfies it — as many periods as such stretches, none invented at the end of the play
                c_ = m["cond"]
                if (isinstance(c_, tuple) and len(c_) == 4 and c_[0] == "bin" and c_[1] in ("eq", "ne") and c_[2] == g.var("mood")
                        and isinstance(c_[3], tuple) and c_[3][0] == "str"):
                    moods = ["clear"]
                    for e_ in evs:
                        if e_[0] == "mood" and e_[2] != moods[-1]:
                            moods.append(e_[2])
                    truth = [(mo_ == c_[3][1]) == (c_[1] == "eq") for mo_ in moods]
                    want = sum(1 for i_, t_ in enumerate(truth) if t_ and (i_ == 0 or not truth[i_ - 1]))
                    rep.count("mood-conditioned auditors: periods counted")
                    if mk.count("S") != want or mk.count("E") != want:
                        ofail.append({"config": text, "events": g.events_json(evs), "auditor": m["name"], "markers": ",".join(mk),
                                      "oracle": "FAIL the mood satisfies the condition during %d stretch(es) of the play (moods: %s): %d period(s) expected, %d started, %d closed"
                                                % (want, " → ".join(moods), want, mk.count("S"), mk.count("E")),
                                      "shape": "periods-are-the-stretches-of-the-condition", "open_at_end": False})
                o = model.ask("C02 oracle %s %s" % (hexs(m["expect"][0]) if m["expect"] else "none", ",".join(mk) or "-"))
                if o != "ok":
                    ofail.append({"config": text, "events": g.events_json(evs), "auditor": m["name"], "markers": ",".join(mk),
                                  "oracle": o, "shape": shape, "open_at_end": bool(mk) and mk[-1] != "E"})
                # O': an expectation that reads signals only is judged on samples made in the period, nothing else:
                # every report of a period other than its end-of-period judgement carries the time of a round that
                # brought a sample of every signal the predicate reads
                pdeps = g.deps(m["expect"][1]) if m["expect"] else []
                if pdeps and all(a for a, _ in pdeps):
                    fresh = [float(e[1]) for e in evs if e[0] == "sig" and all(any((a_, s_) == (va, vs) for (_, va, vs, _) in e[2]) for (a_, s_) in pdeps)]
                    cur, stale = None, []
                    for it in im["stream"]:
                        if it[0] == "start" and it[1] == m["name"]:
                            cur = []
                        elif it[0] == "rep" and it[2] == m["name"] and cur is not None:
                            cur.append(float(it[1]))
                        elif it[0] == "stop" and it[1] == m["name"] and cur is not None:
                            stale += [t for t in cur[:-1] if not any(abs(t - f) < 1e-6 for f in fresh)]
                            cur = None
                    rep.count("signal-only expectation judged")
                    if stale:
                        ofail.append({"config": text, "events": g.events_json(evs), "auditor": m["name"], "markers": ",".join(mk),
                                      "oracle": "FAIL judged at %s although no sample of %s arrived in that round" % (stale[:3], pdeps), "shape": "stale-observation", "open_at_end": False})
            # O'': a period whose condition reads a variable computed by an earlier, always-active member from signals only
            # ends in the FIRST round that assigns the variable a value falsifying the condition (the assignment wakes the
            # auditor in that very round): no such assignment lies strictly between two reports of one period
            for m in cfg["members"]:
                c = m["cond"]
                if not (m["expect"] and c[0] == "bin" and c[1] in ("gt", "le") and c[2][0] == "var" and c[2][1] == "" and c[3][0] == "num"):
                    continue
                src_m = next((gm for gm in cfg["members"] if gm is not m and any(a["target"] == c[2][2] for a in gm["assigns"])), None)
                if src_m is None or src_m["cond"] != g.TRUE or cfg["members"].index(src_m) > cfg["members"].index(m):
                    continue
                e = next(a["expr"] for a in src_m["assigns"] if a["target"] == c[2][2])
                ed = g.deps(e)
                if not ed or not all(a for a, _ in ed):
                    continue

                def ev_expr(x, smp):
                    if x[0] == "num":
                        return x[1]
                    if x[0] == "var":
                        return smp[(x[1], x[2])]
                    if x[0] == "bin" and x[1] in ("add", "sub", "mul"):
                        a_, b_ = ev_expr(x[2], smp), ev_expr(x[3], smp)
                        return a_ + b_ if x[1] == "add" else a_ - b_ if x[1] == "sub" else a_ * b_
                    raise KeyError(x)
                falsifying = []
                try:
                    for ev_ in evs:
                        if ev_[0] == "sig":
                            smp = {(va, vs): vv for (_, va, vs, vv) in ev_[2]}
                            if all(d in smp for d in ed):
                                v = ev_expr(e, smp)
                                holds = v > c[3][1] if c[1] == "gt" else v <= c[3][1]
                                if not holds:
                                    falsifying.append(float(ev_[1]))
                except (KeyError, TypeError):
                    continue
                rep.count("chained-condition periods judged")
                cur, late = None, []
                for it in im["stream"]:
                    if it[0] == "start" and it[1] == m["name"]:
                        cur = []
                    elif it[0] == "rep" and it[2] == m["name"] and cur is not None:
                        cur.append(float(it[1]))
                    elif it[0] == "stop" and it[1] == m["name"] and cur is not None:
                        if len(cur) >= 2:
                            late += [f for f in falsifying if cur[0] + 1e-6 < f < cur[-1] - 1e-6]
                        cur = None
                if late:
                    ofail.append({"config": text, "events": g.events_json(evs), "auditor": m["name"], "markers": ",".join(markers(im["stream"], m["name"])),
                                  "oracle": "FAIL the period went on after %s was assigned a value falsifying the activation condition (at %s)" % (c[2][2], late[:3]),
                                  "shape": "chained-condition", "open_at_end": False})
        rep.sample({"config": text, "events": len(evs), "markers": {m["name"]: ",".join(markers(im["stream"], m["name"])) for m in cfg["members"]}}, cap=3)
    # ---- O-C02d: period independence, directly (metamorphic, on the real loop) -----------------------------------
    # an auditor whose condition reads the mood only and whose predicate reads signals only: take a period that
    # starts at a mood change P; whatever was sampled BEFORE P must not influence what is reported from P on.
    # Variant 1 shifts every earlier sample by +10, variant 2 sets every earlier sample to the value of the
    # first sample of that signal inside the period (so that "same value as before" differs between the runs).
    indep = []
    n_indep = 0
    for cfg, evs in cases:
        if n_indep >= (150 if tier == "quick" else 2500):
            break
        for m in cfg["members"]:
            c = m["cond"]
            if not (m["expect"] and c[0] == "bin" and c[1] in ("eq", "ne") and c[2] == g.var("mood") and c[3][0] == "str"):
                continue
            pdeps = g.deps(m["expect"][1])
            if not pdeps or not all(a for a, _ in pdeps):
                continue
            holds = lambda md: (md == c[3][1]) == (c[1] == "eq")
            mood, starts = "clear", []
            for e in evs:
                if e[0] == "mood":
                    if holds(e[2]) and not holds(mood):
                        starts.append(e[1])
                    mood = e[2]
            starts = [P for P in starts if any(e[0] == "sig" and e[1] < P for e in evs) and any(e[0] == "sig" and e[1] > P for e in evs)]
            if not starts:
                continue
            P = starts[len(starts) // 2]
            first_in = {}
            for e in evs:
                if e[0] == "sig" and e[1] > P:
                    for (k_, a_, s_, v_) in e[2]:
                        first_in.setdefault((a_, s_), v_)
            def variant(fn):
                return [(e[0], e[1], [(k_, a_, s_, fn(a_, s_, v_)) for (k_, a_, s_, v_) in e[2]]) if e[0] == "sig" and e[1] < P else e for e in evs]
            text = g.config_text(cfg)
            base = None
            for vname, fn in (("as generated", lambda a_, s_, v_: v_), ("earlier samples + 10", lambda a_, s_, v_: v_ + 10),
                              ("earlier samples = first sample of the period", lambda a_, s_, v_: first_in.get((a_, s_), v_))):
                ev2 = variant(fn)
                r2 = impl.call("audition", Args={"Parse": {"Text": text}, "Events": g.events_json(ev2), "EpochOffset": float(TEND)})
                if r2.get("Panicked") or r2.get("harnessCrash") or r2.get("Err"):
                    base = None
                    break
                reps = [(round(float(it[1]), 6) if float(it[1]) < TEND else "end", it[3]) for it in g.parse_impl(r2)["stream"] if it[0] == "rep" and it[2] == m["name"] and float(it[1]) >= float(P) - 1e-9]
                if base is None:
                    base = reps
                elif reps != base:
                    indep.append({"config": text, "events": g.events_json(evs), "auditor": m["name"], "period_starts_at": float(P), "variant": vname,
                                  "reports_from_the_period_on": base[:12], "reports_with_the_variant": reps[:12], "variant_events": g.events_json(ev2),
                                  "oracle": "FAIL the reports of a period depend on samples taken before the period"})
                    break
            if base is not None:
                n_indep += 1
                rep.count("period-independence cases (mood-based condition, signal-only predicate)")
            break
    # ---- O-C02e: an auditor's verdicts do not depend on who else is in the audience -------------------------------
    # member m: activation throughout or by mood, predicate over signals only, no computed variable anywhere: what it
    # reports is determined by the mood changes and the samples of its own signals.  The same history is replayed with
    # m alone in the audience (samples of signals nobody watches any more are dropped, as the spotlight would).
    alone = []
    n_alone = 0
    for cfg, evs in cases:
        if n_alone >= (150 if tier == "quick" else 2500):
            break
        if len(cfg["members"]) < 2:
            continue
        for m in cfg["members"]:
            c = m["cond"]
            mood_cond = c == g.TRUE or (c[0] == "bin" and c[1] in ("eq", "ne") and c[2] == g.var("mood") and c[3][0] == "str")
            if not (m["expect"] and mood_cond and not m["assigns"]):
                continue
            pdeps = g.deps(m["expect"][1])
            if not pdeps or not all(a for a, _ in pdeps):
                continue
            mine = set(pdeps)
            ev1 = []
            for e in evs:
                if e[0] == "sig":
                    keep = [x for x in e[2] if (x[1], x[2]) in mine]
                    if keep:
                        ev1.append((e[0], e[1], keep))
                else:
                    ev1.append(e)
            solo = dict(cfg, members=[m], actors=sorted({a for a, _ in mine}))
            streams = []
            for c_, e_ in ((cfg, evs), (solo, ev1)):
                r2 = impl.call("audition", Args={"Parse": {"Text": g.config_text(c_)}, "Events": g.events_json(e_), "EpochOffset": float(TEND)})
                if r2.get("Panicked") or r2.get("harnessCrash") or r2.get("Err"):
                    streams = None
                    break
                streams.append([(round(float(it[1]), 6) if float(it[1]) < TEND else "end", it[3]) for it in g.parse_impl(r2)["stream"] if it[0] == "rep" and it[2] == m["name"]])
            if streams is None:
                continue
            n_alone += 1
            rep.count("auditor-alone cases (verdicts with and without the rest of the audience)")
            if streams[0] != streams[1]:
                alone.append({"config": g.config_text(cfg), "events": g.events_json(evs), "auditor": m["name"], "reports_in_the_full_audience": streams[0][:12],
                              "reports_alone": streams[1][:12], "config_alone": g.config_text(solo), "events_alone": g.events_json(ev1),
                              "oracle": "FAIL the verdicts of an auditor depend on the other members of the audience"})
            break
    # ---- probe: the round in which the condition is found false (the closing round of a period) ------------------
    # `m0 audits only while mood == 'blue'` / `m0 expects always: mood == 'blue'`: whenever the condition holds the
    # predicate holds, so no observation made IN a period disappoints.  The real loop (and the model, which mirrors it)
    # still evaluates the predicate in the closing round, where the mood is already `clear`.
    pcfg = {"signals": [("s", "scalar")], "actors": ["a"], "members": [
        {"name": "m0", "cond": ("bin", "eq", g.var("mood"), ("str", "blue")), "assigns": [],
         "expect": ("always", ("bin", "eq", g.var("mood"), ("str", "blue"))), "watches": []}]}
    pevs = [("mood", F(1), "blue"), ("mood", F(3), "clear")]
    pr_ = impl.call("audition", Args={"Parse": {"Text": g.config_text(pcfg)}, "Events": g.events_json(pevs), "EpochOffset": float(TEND)})
    closing = []
    if not (pr_.get("Panicked") or pr_.get("harnessCrash") or pr_.get("Err")):
        pmk = markers(g.parse_impl(pr_)["stream"], "m0")
        rep.count("closing-round probe")
        if "2" in pmk:
            closing.append({"config": g.config_text(pcfg), "events": g.events_json(pevs), "auditor": "m0", "markers": ",".join(pmk),
                            "oracle": "FAIL an observation made in the round where the activation condition turned false was judged (disappointment) although the predicate holds whenever the condition does"})
    rep.obligation("K-C02: real audit loop vs model on the start/report/stop stream (%d histories)" % len(cases), "K", not kdis, json.dumps(kdis[:2])[:1800])
    rep.obligation("O-C02: periods bracketed, explainable from a fresh start, closed at the end (real stream)", "O", not ofail, json.dumps(ofail[:2])[:1800])
    rep.obligation("O-C02d: what is reported from the start of a period on does not depend on the samples taken before it (%d histories, each replayed with two altered prefixes on the real loop)" % n_indep,
                   "O", not indep, json.dumps(indep[:1])[:1800])
    rep.obligation("O-C02e: the reports of an auditor (mood-based activation, signal-only predicate) are the same with and without the rest of the audience (%d histories replayed on the real loop)" % n_alone,
                   "O", not alone, json.dumps(alone[:1])[:1800])
    closing_known = bool(closing) and rep.match_known({"kind": "closing-round-judged"}) is not None
    rep.obligation("O-C02c: nothing observed in a period's closing round is judged%s" % (" — the probe of the known finding excepted (it fails as recorded)" if closing_known else ""),
                   "O", (not closing) or closing_known, json.dumps(closing[:1])[:900])
    if closing:
        rep.violation("auditor m0: %s" % closing[0]["oracle"], closing[0], tags={"kind": "closing-round-judged"})
    if indep:
        rep.violation("auditor %s: %s" % (indep[0]["auditor"], indep[0]["oracle"]), dict(indep[0], failing_inputs=len(indep)), tags={"kind": "period-depends-on-earlier-samples"})
    if alone:
        rep.violation("auditor %s: %s" % (alone[0]["auditor"], alone[0]["oracle"]), dict(alone[0], failing_inputs=len(alone)), tags={"kind": "verdicts-depend-on-the-audience"})
    if ofail:
        seen = set()
        for f in ofail:
            tag = {"kind": "open-at-end" if f["open_at_end"] else "not-explainable", "shape": f["shape"]}
            k = json.dumps(tag)
            if k in seen:
                continue
            seen.add(k)
            rep.violation("auditor %s: marker stream %s violates the period specification (%s)" % (f["auditor"], f["markers"], f["oracle"]), f, tags=tag)
    elif not indep and not alone:
        if not ok:
            rep.violation("proof obligations of C02 no longer check", {"broken_theorems": info["failed"], "lean_output": info["output"][-3000:]}, nofail=True)
        elif kdis:
            rep.violation("correspondence K-C02 disagrees", {"broken": "K-C02", "disagreements": kdis[:5]}, nofail=True)
    impl.close()
    model.close()
    return rep.finish("cd lean && lake build ShkModel.Props.C02 && #print axioms",
                      "random configurations (1-4 members; activation throughout / mood / time / signal / computed variable; predicates over signals only or also t, mood, moodt, computed variables; all modalities) x random histories of mood changes and samples (0-60 events); a case is non-trivial when at least one period started")
