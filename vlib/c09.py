"""C09 — any configuration text is accepted or rejected with a truthful diagnostic.

Claim level: PARTIAL.  What is proved (lean/ShkModel/Props/C09.lean) is about the READER
(pkg/cmd/reader.go: readLine, newSubReader, pos.wrapErr, and the parseCfg/parseSection loop
around it): termination for every include graph, the depth limit, every wrapErr index in range,
every reported position exists, a rejected clause is reported at its own first line with the
chain of including files.  The regexp-driven clause parsers and govaluate are NOT modelled
(they are the parameter `classify` of the model); that they neither crash nor hang, and that a
clause reported as "unknown syntax" really is the invalid one, is generated testing here
(grammar-derived texts, their mutations, arbitrary bytes, include graphs) and is labelled so in
the evidence.

K-C09  real loader (hook `parseT`, panic recovery + watchdog) vs the reader model on the same
       scratch tree: accepted / rejected, position, context window, include chain, kind of the
       reader's own errors.  The model's `classify` is taken from the real outcome (the clause
       the real parser rejected), so the clause parsers are not compared — the reader is.
O-C09  on every real outcome: no panic, no hang; a positioned diagnostic names an existing file
       and line (Lean spec `oracle-diag`), a clause error sits on the FIRST line of a clause,
       every element of the include chain is a line of an include directive (known finding: it
       is the line after), a syntax error carries a position, and the clause named by an
       "unknown syntax" / "invalid syntax" diagnostic is rejected the same way when parsed alone
       (and an accepted clause is not)."""
import hashlib
import json
import os
import shutil
import subprocess

from .common import *
from .cfgread import *
from . import c09re
from .regen_re import build_regex_tables

PROP = "C09"

WORDS = [b"doc", b"nurse", b"patient", b"alice", b"bob", b"carol", b"x1", b"y_2", b"zed"]
CMDS = [b"echo hi", b"echo cured >>log", b"true", b"sleep 0.1; echo done", b"tail -F log", b"printf 'a|b' | cat"]
EXPRS = [b"t < 5", b"mood == 'blue'", b"1 + 1", b"(2 * 3) > 4", b"t > 0 && t < 100", b"true", b"!(t > 3)"]
MOODS = [b"blue", b"red", b"clear"]
DURS = [b"100ms", b"1s", b"2m3s", b"5m"]
MODALITIES = [b"always", b"never", b"eventually", b"once", b"twice", b"thrice", b"not always",
              b"eventually always", b"always eventually", b"not once"]


def gen_valid(rng, mult_max):
    """a configuration that follows the grammar of docs/manual.md (clause shapes of testdata/parse/*)"""
    L = []
    ind = rng.pick([b"  ", b"", b"\t", b"    "])
    if rng.chance(1, 2):
        L.append(b"title " + rng.pick(WORDS) + b" " + rng.pick(WORDS))
    if rng.chance(1, 3):
        L.append(b"author " + rng.pick(WORDS))
    if rng.chance(1, 3):
        L.append(b"attention this is " + rng.pick(WORDS))
    if rng.chance(1, 4):
        L.append(b"parameter " + rng.pick(WORDS) + b" defaults to " + rng.pick(WORDS))
    roles = []
    for i in range(rng.range(1, 3)):
        rn = rng.pick(WORDS) + str(i).encode()
        L.append(b"role " + rn)
        acts = []
        for j in range(rng.range(1, 3)):
            an = b"act%d" % j
            acts.append(an)
            L.append(ind + b":" + an + b" " + rng.pick(CMDS))
        sigs = []
        if rng.chance(2, 3):
            L.append(ind + b"spotlight " + rng.pick(CMDS))
            if rng.chance(1, 2):
                L.append(ind + b"cleanup " + rng.pick(CMDS))
            for j in range(rng.range(0, 2)):
                sn = b"sig%d" % j
                typ = rng.pick([b"event", b"scalar", b"delta"])
                ts = rng.pick([b"(?P<ts_now>)", b"(?P<ts_log>)", b"(?P<ts_rfc3339>)", b"(?P<ts_deltasecs>)"])
                L.append(ind + b"signal " + sn + b" " + typ + b" at " + ts + b" (?P<" + typ + b">\\d+)")
                sigs.append(sn)
        L.append(b"end")
        roles.append((rn, acts, sigs))
    if rng.chance(1, 3):
        base = rng.pick(roles)
        rn = b"ext" + base[0]
        L.append(b"role " + rn + b" extends " + base[0])
        L.append(b"end")
        roles.append((rn, base[1], base[2]))
    actors = []
    L.append(b"cast")
    for i in range(rng.range(1, 3)):
        r = rng.pick(roles)
        if rng.chance(1, 3):
            # (also 0, negative, signed and padded multiplicities: no actor, or the number as written)
            n = rng.pick([0, -1, -2, "+2", "02", -99999]) if rng.chance(1, 6) else rng.range(1, mult_max)
            an = b"m%d_" % i
            L.append(ind + an + b"* play " + str(n).encode() + b" " + r[0] + (b"s" if rng.chance(1, 2) else b""))
            for k in range(max(0, int(n))):
                actors.append((an + str(k + 1).encode(), r))
        else:
            an = rng.pick(WORDS) + b"_" + str(i).encode()
            L.append(ind + an + b" plays " + r[0] + (b" with V=" + rng.pick(WORDS) if rng.chance(1, 2) else b""))
            actors.append((an, r))
    if not actors:
        # (every definition had a multiplicity that defines nobody)
        r = rng.pick(roles)
        L.append(ind + b"solo plays " + r[0])
        actors.append((b"solo", r))
    L.append(b"end")
    L.append(b"script")
    L.append(ind + b"tempo " + rng.pick(DURS))
    scenes = []
    for ch in rng.shuffle([b"a", b"b", b"c", b"d"])[:rng.range(1, 3)]:
        an, r = rng.pick(actors)
        tgt = an if rng.chance(2, 3) else b"every " + r[0]
        acts = b"; ".join(rng.pick(r[1]) + (b"?" if rng.chance(1, 4) else b"") for _ in range(rng.range(1, 2)))
        L.append(ind + b"scene " + ch + b" entails for " + tgt + b": " + acts)
        if rng.chance(1, 3):
            L.append(ind + b"scene " + ch + b" mood " + rng.pick([b"starts", b"ends"]) + b" " + rng.pick(MOODS))
        scenes.append(ch)
    story = b"".join(rng.pick(scenes + [b".", b"+"]) if i else rng.pick(scenes) for i in range(rng.range(1, 4)))
    L.append(ind + b"storyline " + story.replace(b"++", b"+").rstrip(b"+"))
    if rng.chance(1, 3):
        L.append(ind + b"edit s/" + scenes[0] + b"/" + scenes[0] + scenes[-1] + b"/" + (b"g" if rng.chance(1, 2) else b""))
    if rng.chance(1, 2):
        L.append(ind + b"repeat from " + scenes[0])
        L.append(ind + rng.pick([b"repeat always", b"repeat 3 times", b"repeat time 5m", b"repeat time unconstrained"]))
    L.append(b"end")
    if rng.chance(3, 4):
        L.append(b"audience")
        wat = [(a, s) for a, r in actors for s in r[2]]
        if wat and rng.chance(2, 3):
            a, s = rng.pick(wat)
            L.append(ind + b"obs watches " + a + b" " + s)
            if rng.chance(1, 2):
                L.append(ind + b"obs measures some " + rng.pick(WORDS))
        aud = rng.pick(WORDS) + b"_a"
        if rng.chance(1, 2):
            L.append(ind + aud + b" audits " + rng.pick([b"throughout", b"only while " + rng.pick(EXPRS), b"only when " + rng.pick(EXPRS)]))
        if rng.chance(1, 2):
            L.append(ind + aud + b" computes v1 as " + rng.pick(EXPRS))
            if rng.chance(1, 2):
                L.append(ind + b"obs2 watches v1")
        if rng.chance(1, 2):
            L.append(ind + aud + b" collects c1 as " + rng.pick([b"last", b"first", b"top", b"bottom"]) + b" 3 " + rng.pick(EXPRS))
        L.append(ind + aud + b" expects " + rng.pick(MODALITIES) + b": " + rng.pick(EXPRS))
        if rng.chance(1, 3):
            L.append(ind + b"other expects like " + aud)
        if rng.chance(1, 4):
            L.append(ind + aud + b" only helps")
        L.append(b"end")
        if rng.chance(1, 2):
            L.append(b"interpretation")
            L.append(ind + rng.pick([b"ignore " + aud + b" disappointment", b"foul upon " + aud + b" satisfaction",
                                     b"require " + aud + b" disappointment", b"ignore satisfaction"]))
            L.append(b"end")
    # decoration: comments, blanks, continuation lines
    out = []
    for l in L:
        if rng.chance(1, 10):
            out.append(rng.pick([b"", b"# a comment", b"   ", b"#"]))
        if rng.chance(1, 8) and b" " in l.strip():
            i = l.rindex(b" ")
            out.append(l[:i] + b" \\")
            out.append(b"   " + l[i + 1:])
        else:
            out.append(l)
    return out


EDITS = [b"s", b"s/", b"s/a", b"s/ab", b"s/a/b", b"s/a/b/", b"s/a/b/g", b"s/a/b/x", b"s//", b"s///", b"x/a/b/",
         b"s/(/b/", b"sXaXbX", b"s/a/b/gg", b"s/a//", b"ss/a/b/", b"s\\a\\b\\", b"s/a/b/ g"]
EXPR_TAILS = [b" +", b" (", b")", b" \\ ", b" '", b' "', b" [a", b"]", b" &&", b" ==", b" \\", b"((((", b" ? 1", b" 'abc\\", b" ,", b"."]
NASTY = [b"\x00", b"\xff", b"\xc2\xa0", b"\xe2\x80\xa8", b"\x0b", b"\r", b"~", b"~x~", b"\\", b"\t", b"\xc2\x85", b"#", b":", b"*"]


def mutate(rng, lines):
    """one mutation of a list of physical lines; returns (lines, name)"""
    lines = list(lines)
    if not lines:
        return lines, "none"
    k = rng.below(16)
    i = rng.below(len(lines))
    if k == 0:
        text = b"\n".join(lines)
        return text[:rng.below(len(text) + 1)].split(b"\n"), "truncate-bytes"
    if k == 1:
        toks = lines[i].split(b" ")
        if len(toks) > 1:
            del toks[rng.below(len(toks))]
        lines[i] = b" ".join(toks)
        return lines, "delete-token"
    if k == 2:
        j = rng.below(len(lines))
        lines[i], lines[j] = lines[j], lines[i]
        return lines, "swap-lines"
    if k == 3:
        for sep in rng.shuffle([b":", b"/", b" ", b";", b"="]):
            if sep in lines[i]:
                p = lines[i].index(sep)
                lines[i] = lines[i][:p] + sep + lines[i][p:]
                break
        return lines, "double-separator"
    if k == 4:
        p = rng.below(len(lines[i]) + 1)
        lines[i] = lines[i][:p] + b"\\" + lines[i][p:]
        return lines, "stray-backslash"
    if k == 5:
        lines[i] = lines[i] + b"\\"
        return lines, "backslash-at-eol"
    if k == 6:
        lines[i] = rng.pick([b"  edit ", b"edit "]) + rng.pick(EDITS)
        return lines, "edit-command"
    if k == 7:
        idx = [n for n, l in enumerate(lines) if b" expects " in l or b" computes " in l or b" audits only" in l or b" collects " in l]
        if idx:
            n = rng.pick(idx)
            lines[n] = lines[n] + rng.pick(EXPR_TAILS)
            return lines, "expression-tail"
        lines.append(b"audience")
        lines.append(b"  q expects always: t" + rng.pick(EXPR_TAILS))
        return lines, "expression-tail"
    if k == 8:
        del lines[i]
        return lines, "delete-line"
    if k == 9:
        lines.insert(i, lines[i])
        return lines, "duplicate-line"
    if k == 10:
        p = rng.below(len(lines[i]) + 1)
        lines[i] = lines[i][:p] + rng.pick(NASTY) + lines[i][p:]
        return lines, "insert-nasty-byte"
    if k == 11:
        lines[i] = lines[i][:rng.below(len(lines[i]) + 1)]
        return lines, "truncate-line"
    if k == 12:
        b = bytearray(lines[i])
        if b:
            b[rng.below(len(b))] = rng.below(256)
        lines[i] = bytes(b).replace(b"\n", b" ")
        return lines, "flip-byte"
    if k == 13:
        return [l + b"\r" for l in lines], "crlf"
    if k == 14:
        lines[i] = rng.pick([b"end", b"cast", b"script", b"audience", b"role", b"role a extends", b"interpretation", b"include", b"include ",
                             b"parameter", b"parameter p defaults to", b"parameter 1p defaults to x", b"title", b"scene", b"storyline"])
        return lines, "keyword-alone"
    toks = lines[i].split(b" ")
    rng2 = rng.shuffle(toks)
    lines[i] = b" ".join(rng2)
    return lines, "shuffle-tokens"


def join_lines(rng, lines):
    text = b"\n".join(lines)
    if rng.chance(5, 6):
        text += b"\n"
    return text


def gen_bytes(rng):
    """arbitrary bytes, with newlines and keywords sprinkled in so that lines exist"""
    n = rng.pick([0, 1, 2, 5, 40, 200, 1000, 4000])
    kind = rng.below(3)
    if kind == 0:
        return bytes(rng.below(256) for _ in range(n))
    if kind == 1:
        alpha = [b"\n", b" ", b"\\", b"#", b"include ", b"a", b"/", b".", b"~", b"end", b"role ", b"\t", b"\r", b"\x00", b"\xff", b"s", b":"]
        return b"".join(rng.pick(alpha) for _ in range(n))
    kw = [b"role", b"end", b"cast", b"script", b"audience", b"include", b"title", b"plays", b"play", b"watches", b"expects", b"always:",
          b"edit", b"s/a/b/", b"storyline", b"scene", b"entails", b"for", b"every", b"parameter", b"defaults", b"to", b"\n", b"\n", b"\\\n", b"x", b"1"]
    return b" ".join(rng.pick(kw) for _ in range(n // 4))


def small_clause(rng):
    return rng.pick([b"title t", b"author a", b"notvalid", b"attention x", b"# c", b"", b"parameter p defaults to v",
                     b"script\n  tempo 1s\nend", b"cast\nend", b"role r\nend", b"title a \\\n  b", b"bad \\\n clause", b"end"])


def gen_graph(rng):
    """include graphs: chains (depth 9/10/11 emphasised), diamonds, cycles, self-include, missing
    files, directories, -I only, shadowed by a sibling, includes with parameters"""
    kind = rng.pick(["chain", "chain", "chain", "diamond", "cycle", "self", "missing", "dir", "ipath", "shadow", "param", "weird", "insection"])
    files, dirs, ipath, defines = {}, [], [], []
    nl = lambda: b"\n" if rng.chance(4, 5) else b""
    if kind == "chain":
        d = rng.pick([1, 2, 3, 8, 9, 10, 11, 12])
        bottom = rng.pick([b"title bottom", b"notvalid", b"title x \\", b"role r\n  foo\nend", b"", b"cast\n  a plays nobody\nend"])
        for i in range(d):
            pre = b"".join(small_clause(rng) + b"\n" for _ in range(rng.below(3)))
            pre = pre.replace(b"notvalid\n", b"").replace(b"bad \\\n clause\n", b"").replace(b"end\n", b"")
            inc = rng.pick([b"include f%d.cfg", b"include f%d.cfg", b"  include f%d.cfg  ", b"include \\\nf%d.cfg", b"include ./f%d.cfg", b"include sub/../f%d.cfg"]) % (i + 1)
            post = (b"\ntitle after%d" % i) if rng.chance(1, 3) else b""
            files["f%d.cfg" % i if i else "main.cfg"] = pre + inc + post + nl()
        files["f%d.cfg" % d] = bottom + nl()
        if rng.chance(1, 2):
            dirs.append("sub")
    elif kind == "diamond":
        files["main.cfg"] = b"include a.cfg\ninclude b.cfg\n" + small_clause(rng) + nl()
        files["a.cfg"] = b"title a\ninclude d.cfg\n"
        files["b.cfg"] = b"title b\ninclude d.cfg" + nl()
        files["d.cfg"] = rng.pick([b"title d\n", b"attention d\nnotvalid\n", b"cast\n  x plays y\nend\n", b"role dup\nend\n"])
    elif kind == "cycle":
        files["main.cfg"] = small_clause(rng) + b"\ninclude a.cfg\n"
        files["a.cfg"] = b"title a\n" + rng.pick([b"", b"# c\n", b"title a2 \\\n cont\n"]) + b"include b.cfg\ntitle never\n"
        files["b.cfg"] = rng.pick([b"include a.cfg", b"include main.cfg", b"title b\ninclude a.cfg\n", b"\n\ninclude a.cfg"]) + nl()
    elif kind == "self":
        files["main.cfg"] = rng.pick([b"include main.cfg", b"title t\ninclude main.cfg\ntitle u\n", b"# c\n\ninclude \\\nmain.cfg\n",
                                      b"include main.cfg\ninclude main.cfg\n", b"script\n  tempo 1s\n  include main.cfg\nend\n"]) + nl()
    elif kind == "missing":
        files["main.cfg"] = small_clause(rng) + b"\ninclude " + rng.pick([b"nothere.cfg", b"sub/nothere.cfg", b"../nothere", b"main.cfg/x", b"a" * 300, b"x\x00y", b""]) + nl()
        if rng.chance(1, 2):
            files["a.cfg"] = b"title a\n"
    elif kind == "dir":
        dirs.append("sub")
        files["main.cfg"] = small_clause(rng) + b"\ninclude " + rng.pick([b".", b"sub", b"./", b"sub/", b"..", b"sub/.."]) + nl() + (b"title after\n" if rng.chance(1, 2) else b"")
    elif kind == "ipath":
        ipath = ["inc1", "inc2"]
        dirs += ["inc1", "inc2"]
        files["main.cfg"] = b"include only1.cfg\ninclude only2.cfg\ninclude both.cfg\n" + (b"include none.cfg\n" if rng.chance(1, 3) else b"")
        files["inc1/only1.cfg"] = b"title one\n"
        files["inc2/only2.cfg"] = b"title two\ninclude only1.cfg\n"
        files["inc1/both.cfg"] = b"title both1\n" + (b"oops\n" if rng.chance(1, 2) else b"")
        files["inc2/both.cfg"] = b"title both2\n"
    elif kind == "shadow":
        ipath = ["inc"]
        files["main.cfg"] = b"include sub/a.cfg\ninclude b.cfg" + nl()
        files["sub/a.cfg"] = b"title a\ninclude b.cfg\n"
        files["sub/b.cfg"] = rng.pick([b"title sibling\n", b"sibling is bad\n"])
        files["inc/b.cfg"] = rng.pick([b"title from-inc\n", b"inc is bad\n"])
        if rng.chance(1, 2):
            files["b.cfg"] = b"title from-root\n"
    elif kind == "param":
        defines = rng.pick([[], ["n=a"], ["n=zz"], ["n="], ["d=sub"], ["n=a", "n=b"]])
        dirs.append("sub")
        files["main.cfg"] = rng.pick([b"", b"parameter n defaults to b\n", b"parameter d defaults to .\n"]) + \
            b"include " + rng.pick([b"~n~.cfg", b"~d~/a.cfg", b"~n~~n~.cfg", b"~u~.cfg", b"~n~", b"~n~.cfg ~u~ ~v~"]) + nl()
        files["a.cfg"] = b"title a\n"
        files["b.cfg"] = b"title b\nnotvalid\n"
        files["sub/a.cfg"] = b"title sub-a\n"
    elif kind == "weird":
        files["main.cfg"] = b"include " + bytes(rng.pick([32, 46, 47, 97, 126, 92, 0, 255, 9, 58]) for _ in range(rng.range(1, 6))) + nl()
        files["a"] = b"title a\n"
    else:
        files["main.cfg"] = b"role r\n  :a true\n  include part.cfg\ntitle after\n"
        files["part.cfg"] = rng.pick([b"  spotlight true\nend\n", b"  :b true\n", b"  nonsense here\n", b"end\nend\n"])
    return {"files": files, "dirs": dirs, "ipath": ipath, "defines": defines, "tag": "graph-" + kind}


def gen_case(rng, mult_max):
    k = rng.below(10)
    if k < 2:
        return {"files": {"main.cfg": join_lines(rng, gen_valid(rng, mult_max))}, "dirs": [], "ipath": [], "defines": [], "tag": "grammar"}
    if k < 5:
        lines = gen_valid(rng, mult_max)
        names = []
        for _ in range(rng.range(1, 3)):
            lines, nm = mutate(rng, lines)
            names.append(nm)
        return {"files": {"main.cfg": join_lines(rng, lines)}, "dirs": [], "ipath": [], "defines": [], "tag": "mutation", "mut": names}
    if k < 6:
        return {"files": {"main.cfg": gen_bytes(rng)}, "dirs": [], "ipath": [], "defines": [], "tag": "bytes"}
    if k < 9:
        return gen_graph(rng)
    # a grammar-derived text split over included files, then mutated
    lines = gen_valid(rng, mult_max)
    cut = sorted(rng.below(len(lines) + 1) for _ in range(2))
    a, b, c = lines[:cut[0]], lines[cut[0]:cut[1]], lines[cut[1]:]
    names = []
    if rng.chance(1, 2):
        b, nm = mutate(rng, b)
        names.append(nm)
    return {"files": {"main.cfg": join_lines(rng, a + [b"include part.cfg"] + c), "part.cfg": join_lines(rng, b)},
            "dirs": [], "ipath": [], "defines": [], "tag": "split", "mut": names}


# ---- classification of real messages ---------------------------------------------------------

def msg_class(msg):
    if msg == b"include depth limit exceeded":
        return "depth"
    if msg == b"EOF encountered while expecting line continuation":
        return "eofCont"
    if msg.endswith(b": file does not exist"):
        return "notFound"
    if msg.endswith(b": is a directory"):
        return "isDir"
    if msg.startswith(b"undefined parameter:") or b"(1) undefined parameter:" in msg:
        return "undef"
    if msg in (b"unknown syntax", b"invalid syntax"):
        return "syntax"
    if msg.startswith(b"open "):
        return "openErr"
    return "other"


READER_KINDS = {"depth": "depth", "eofCont": "eofCont", "notFound": "notFound", "isDir": "isDir", "undef": "undef", "openErr": "openErr"}

SECTION_WORDS = (b"cast", b"script", b"audience", b"interpretation")


def section_of(clauses, k):
    """opener line for an isolated parse of clause k (None at top level)"""
    if not clauses[k]["inSec"]:
        return None
    for j in range(k - 1, -1, -1):
        if not clauses[j]["inSec"]:
            t = clauses[j]["text"]
            if t in SECTION_WORDS:
                return t
            return b"role zz9"
    return None


class Ctx:
    def __init__(self, rep, root, impl, model):
        self.rep, self.root, self.impl, self.model = rep, root, impl, model
        self.kdis, self.ofail = [], []
        self.n = 0
        self.iso_every = 1

    def isolated_syntax(self, casedir, opener, text):
        src = clause_source(text)
        body = (opener + b"\n" + src + b"\nend\n") if opener else (src + b"\n")
        rel = os.path.join(casedir, "iso.cfg")
        with open(os.path.join(self.root, rel), "wb") as f:
            f.write(body)
        r = self.impl.parse(rel)
        if r.get("Hung") or r.get("Panicked") or r.get("harnessCrash"):
            return "crash"
        if r.get("Ok"):
            return "accepted"
        d = parse_diag(bytes.fromhex(r["ErrFullHex"]))
        return "syntax" if d.get("msg") in (b"unknown syntax", b"invalid syntax") else "other"


def check_case(ctx, case, rng):
    ctx.n += 1
    casedir = "k%d" % ctx.n
    try:
        _check_case(ctx, case, rng, casedir)
    finally:
        shutil.rmtree(os.path.join(ctx.root, casedir), ignore_errors=True)


def _check_case(ctx, case, rng, casedir):
    rep = ctx.rep
    write_tree(ctx.root, {os.path.join(casedir, p): d for p, d in case["files"].items()},
               [os.path.join(casedir, d) for d in case["dirs"]] + [casedir])
    main = os.path.join(casedir, case.get("main", "main.cfg"))
    ipath = [os.path.join(casedir, p) for p in case["ipath"]]
    defines = case["defines"]
    desc = {"tag": case["tag"], "mut": case.get("mut"), "files": {p: d.decode("latin-1") for p, d in case["files"].items()},
            "dirs": case["dirs"], "ipath": case["ipath"], "defines": defines}
    key = hashlib.sha1(json.dumps(desc, sort_keys=True).encode()).hexdigest()
    nontrivial = any(l.strip() and not l.strip().startswith(b"#") for d in case["files"].values() for l in d.split(b"\n"))
    rep.case(key, nontrivial)
    rep.count("input:" + case["tag"])
    for m in case.get("mut") or []:
        rep.count("mutation:" + m)
    r = ctx.impl.parse(main, ipath, defines)

    def ofail(what, tags):
        ctx.ofail.append({"what": what, "tags": tags, "case": desc, "real": {k: r.get(k) for k in ("Ok", "Err", "Panicked", "Panic", "Hung")}})

    if r.get("Hung"):
        rep.count("real:hang")
        ofail("the loader did not return within 5 s", {"kind": "hang", "input": case["tag"]})
        return
    if r.get("Panicked") or r.get("panicked") or r.get("harnessCrash"):
        rep.count("real:panic")
        ofail("the loader panicked: %s" % (r.get("Panic") or r.get("panic") or "harness died"), {"kind": "panic", "input": case["tag"]})
        return
    mb = main.encode()
    ib = [p.encode() for p in ipath]
    db = [d.encode() for d in defines]
    m0, clauses, tbl, fs = model_load(ctx.model, ctx.root, mb, ib, db)

    def kdis(what, **kw):
        ctx.kdis.append(dict({"what": what, "case": desc, "real": r.get("Err"), "model": {k: (v.decode("latin-1") if isinstance(v, bytes) else v) for k, v in m0.items() if k != "chain"}}, **kw))

    if m0["kind"] not in ("ok", "err", "abort"):
        kdis("the model did not finish: " + m0["kind"])
        return
    if r["Ok"]:
        rep.count("real:accepted")
        if m0["kind"] != "ok":
            kdis("accepted by the real loader, not by the reader model")
        elif clauses and ctx.n % ctx.iso_every == 0 and any(c["text"] != b"end" for c in clauses):
            k = rng.pick([i for i, c in enumerate(clauses) if c["text"] != b"end"])
            v = ctx.isolated_syntax(casedir, section_of(clauses, k), clauses[k]["text"])
            rep.count("isolated-accepted-clause:" + v)
            if v in ("syntax", "crash"):
                ofail("a clause the loader accepted is %s when parsed alone: %r" % (v, clauses[k]["text"][:80]),
                      {"kind": "accepted-invalid", "input": case["tag"]})
        return
    d = parse_diag(bytes.fromhex(r["ErrFullHex"]))
    if d.get("malformed"):
        ofail("diagnostic cannot be read back: " + d["malformed"], {"kind": "malformed-diagnostic"})
        return
    if not d["positioned"]:
        cls = msg_class(d["head"])
        rep.count("real:rejected-without-position")
        if cls == "syntax":
            ofail("syntax error without a position", {"kind": "syntax-without-position"})
        main_problem = d["head"].endswith(b": file does not exist") or d["head"].endswith(b": is a directory") or d["head"].startswith(b"open ")
        if (m0["kind"] == "abort") != main_problem:
            kdis("main file: real says %r, model %s" % (d["head"][:80], m0["kind"]))
        return
    rep.count("real:rejected-at-a-position")
    cls = msg_class(d["msg"])
    rep.count("diagnostic:" + cls)
    if d["chain"]:
        rep.count("diagnostic-with-chain-of-%d" % min(len(d["chain"]), 9))
    if len(d.get("marked", [])) != 1 or d["marked"][0] != d["line"]:
        ofail("context window does not mark the reported line", {"kind": "context-mark"})
    # ---- O: the position is truthful (Lean specification on the real diagnostic) ----
    ofs = {}
    for nm in [d["file"]] + [c[0] for c in d["chain"]]:
        if nm not in ofs:
            ofs[nm] = stat_entry(ctx.root, nm)
    is_clause = cls not in ("eofCont",)
    if cls == "eofCont":
        # "EOF encountered while expecting line continuation" is true only of a file that ends in backslash-newline
        try:
            data = open(os.path.join(ctx.root, d["file"].decode("latin-1")) if not os.path.isabs(d["file"].decode("latin-1")) else d["file"].decode("latin-1"), "rb").read()
        except OSError:
            data = None
        rep.count("diagnostic: EOF in a continuation, file %s" % ("ends in backslash-newline" if data is not None and data.endswith(b"\\\n") else "has its continuation line"))
        if data is not None and not data.endswith(b"\\\n"):
            ofail("\"EOF encountered while expecting line continuation\" for a file whose continuation line is there (it only lacks a final newline)",
                  {"kind": "eof-continuation-untruthful"})
    chain_tok = ";".join("%s:%d" % (hx(f), l) for f, l in d["chain"]) or "-"
    o = ctx.model.ask("C09 oracle-diag %s %s %d %s %d" % (fs_token(ofs), hx(d["file"]), d["line"], chain_tok, 1 if is_clause else 0))
    if o != "ok":
        if o is not None and o.startswith("FAIL chain-after-include"):
            ofail("include chain names the line after the include directive (%s)" % o,
                  {"kind": "include-chain-line", "off_by_one": True})
        else:
            ofail("position is not truthful: %s" % o, {"kind": "position", "oracle": (o or "")[:40], "input": case["tag"]})
    # ---- K: position, window, chain against the model ----
    agreed = False
    if m0["kind"] == "err" and (m0["file"], m0["line"]) == (d["file"], d["line"]) and m0["err"] != "clause":
        if READER_KINDS.get(cls) == m0["err"] or (cls == "other" and m0["err"] == "openErr"):
            agreed = True
            mm = m0
    k_used = None
    if not agreed:
        cands = [i for i, c in enumerate(clauses) if c["file"] == d["file"] and c["line"] == d["line"]]
        for k in cands:
            m1, cl1, _, fs = model_load(ctx.model, ctx.root, mb, ib, db, verdict="r%d" % k, fs=fs)
            if m1["kind"] == "err" and m1["err"] == "clause" and m1["chain"] == d["chain"]:
                agreed, mm, k_used = True, m1, k
                break
        if not agreed:
            kdis("real position %s:%d (%s) is not where the model reads a clause or fails" % (d["file"].decode("latin-1"), d["line"], cls),
                 candidates=cands, real_chain=[(f.decode("latin-1"), l) for f, l in d["chain"]])
            return
    if (mm["file"], mm["line"], mm["chain"]) != (d["file"], d["line"], d["chain"]) or (mm["lo"], mm["hi"]) != (d.get("lo"), d.get("hi")):
        kdis("position / window / chain differ", real_diag={"file": d["file"].decode("latin-1"), "line": d["line"], "lo": d.get("lo"), "hi": d.get("hi"),
                                                            "chain": [(f.decode("latin-1"), l) for f, l in d["chain"]]},
             model_diag={"line": mm["line"], "lo": mm["lo"], "hi": mm["hi"], "chain": [(f.decode("latin-1"), l) for f, l in mm["chain"]]})
    if mm["err"] == "undef" and cls == "undef":
        names = re.findall(rb"undefined parameter: ~(\w+)~", d["msg"])
        want = [unhx(x) for x in (mm["arg"] or "-").split(";")] if mm["arg"] != "-" else []
        if names != want:
            kdis("undefined parameters of the include name differ", real_names=[n.decode() for n in names], model_names=[n.decode() for n in want])
    # ---- O: the clause named by a syntax diagnostic is the invalid one ----
    if cls == "syntax" and k_used is not None:
        v = ctx.isolated_syntax(casedir, section_of(clauses, k_used), clauses[k_used]["text"])
        rep.count("isolated-rejected-clause:" + v)
        if v != "syntax":
            ofail("the clause named by the syntax diagnostic is %s when parsed alone: %r" % (v, clauses[k_used]["text"][:80]),
                  {"kind": "wrong-clause-blamed", "input": case["tag"]})


PATH_ALPHA = [b"a", b"b", b"..", b".", b"/", b"/", b"c.cfg", b"", b" "]
SPACE_ALPHA = [b" ", b"\t", b"\n", b"\x0b", b"\x0c", b"\r", b"\xc2\x85", b"\xc2\xa0", b"\xe1\x9a\x80", b"\xe2\x80\x80", b"\xe2\x80\x8a",
               b"\xe2\x80\xa8", b"\xe2\x80\xa9", b"\xe2\x80\xaf", b"\xe2\x81\x9f", b"\xe3\x80\x80", b"x", b"\xc2", b"\xa0", b"\xe2\x80", b"\x80", b"\xe2\x80\x8b", b"y"]


def check_gostr(rep, impl, model, rng, n):
    """the Go library functions re-implemented in the reader model"""
    bad = []
    reqs = []
    for _ in range(n):
        a = b"".join(rng.pick(PATH_ALPHA) for _ in range(rng.below(7)))
        b = b"".join(rng.pick(PATH_ALPHA) for _ in range(rng.below(5)))
        s = b"".join(rng.pick(SPACE_ALPHA) for _ in range(rng.below(8)))
        reqs.append(("join", a, b))
        reqs.append(("dir", a, b""))
        reqs.append(("trim", s, b""))
    ml = model.ask_many(["C09 %s %s" % (fn, hx(a)) + (" " + hx(b) if fn == "join" else "") for fn, a, b in reqs])
    for (fn, a, b), m in zip(reqs, ml):
        g = impl.call("gostr", Fn=fn, A=a.hex(), B=b.hex())["res"]
        rep.count("gostr:" + fn)
        if m != "x" + g:
            bad.append({"fn": fn, "a": a.decode("latin-1"), "b": b.decode("latin-1"), "go": g, "model": m})
    return bad


def check_edit(rep, ctx, rng, n):
    """the syntax check of `edit` (fix-1) against its model"""
    bad = []
    cmds = list(EDITS)
    for _ in range(n):
        cmds.append(b"".join(rng.pick([b"s", b"/", b"a", b"b", b"g", b"x", b"|", b"."]) for _ in range(rng.range(1, 8))))
    os.makedirs(os.path.join(ctx.root, "edit"), exist_ok=True)
    for c in cmds:
        if c.endswith(b"\\") or c != c.strip():
            continue
        with open(os.path.join(ctx.root, "edit", "e.cfg"), "wb") as f:
            f.write(b"script\n  storyline .\n  edit " + c + b"\nend\n")
        r = ctx.impl.parse("edit/e.cfg")
        m = ctx.model.ask("C09 edit 0 " + hx(c))
        rep.count("edit-command")
        if r.get("Panicked") or r.get("Hung") or r.get("harnessCrash"):
            ctx.ofail.append({"what": "edit %r: loader panicked: %s" % (c, r.get("Panic")), "tags": {"kind": "panic", "input": "edit"},
                              "case": {"files": {"main.cfg": "script\n  storyline .\n  edit %s\nend\n" % c.decode("latin-1")}}, "real": r.get("Panic")})
            continue
        real_invalid = (not r["Ok"]) and parse_diag(bytes.fromhex(r["ErrFullHex"])).get("msg") == b"invalid syntax"
        if real_invalid != (m == "invalid"):
            bad.append({"edit": c.decode("latin-1"), "real": r.get("Err"), "model": m})
    return bad


def check_extra_script_include(rep, ctx):
    """configuration lines given on the command line (-s / -r are read through an in-memory reader) that include a
    file which differs from its committed version (the loader records `git diff` of every file it opens)"""
    d = os.path.join(ctx.root, "gitrepo")
    os.makedirs(d, exist_ok=True)
    env = dict(os.environ, GIT_CONFIG_GLOBAL="/dev/null", GIT_CONFIG_SYSTEM="/dev/null")
    with open(os.path.join(d, "x.cfg"), "w") as f:
        f.write("  tempo 1s\n")
    with open(os.path.join(d, "main.cfg"), "w") as f:
        f.write("title t\n")
    cmds = [["git", "init", "-q", "."], ["git", "add", "-A"], ["git", "-c", "user.email=v@v", "-c", "user.name=v", "commit", "-qm", "init"]]
    for c in cmds:
        if subprocess.run(c, cwd=d, env=env, capture_output=True).returncode != 0:
            rep.count("git-unavailable")
            return
    with open(os.path.join(d, "x.cfg"), "w") as f:
        f.write("  tempo 2s\n")
    from . import e2e
    pr = subprocess.run([e2e.BIN, "-n", "-q", "-s", "include x.cfg", "main.cfg"], cwd=d, env=env, capture_output=True, text=True, timeout=30)
    rep.count("extra-script-include-of-a-modified-file")
    if "panic:" in pr.stderr or pr.returncode not in (0, 1):
        ctx.ofail.append({"what": "-s 'include x.cfg' of a file with an uncommitted change: the loader crashed: %s" % pr.stderr.strip().splitlines()[0:1],
                          "tags": {"kind": "panic", "input": "extra-script-include"},
                          "case": {"files": {"main.cfg": "title t\n", "x.cfg": "  tempo 2s\n"}, "args": ["-n", "-s", "include x.cfg", "main.cfg"],
                                   "git": "run inside a git work tree in which x.cfg differs from its committed version"},
                          "real": pr.stderr[-600:]})
    elif pr.returncode != 0:
        ctx.ofail.append({"what": "-s 'include x.cfg' rejected: %s" % pr.stderr[-300:], "tags": {"kind": "extra-script-include"}, "case": {}, "real": pr.stderr[-300:]})


CORPUS = [
    {"files": {"main.cfg": b"script\nedit s/ab\nend\n"}, "tag": "corpus-edit"},
    # a `+` where validateStoryLine looks at the character before it
    {"files": {"main.cfg": b"role r\n  :a true\nend\ncast\n  bob plays r\nend\nscript\n  scene a entails for bob: a\n  storyline +a\nend\n"}, "tag": "corpus-plus"},
    {"files": {"main.cfg": b"role r\n  :a true\nend\ncast\n  bob plays r\nend\nscript\n  scene a entails for bob: a\n  storyline a\n  edit s/^/+/\nend\n"}, "tag": "corpus-plus"},
    {"files": {"main.cfg": b"role r\n  :a true\nend\ncast\n  bob plays r\nend\nscript\n  scene a entails for bob: a\n  storyline a+ +a a++a +\nend\n"}, "tag": "corpus-plus"},
    {"files": {"main.cfg": b"audience\na expects always: 1 + \\ \nend\n"}, "tag": "corpus-expr-backslash"},
    {"files": {"main.cfg": b"audience\na expects always: \"abc\\"}, "tag": "corpus-expr-backslash"},
    {"files": {"main.cfg": b"title x\ninclude .\n"}, "tag": "corpus-include-dir"},
    {"files": {"main.cfg": b"include inc.cfg\n", "inc.cfg": b"notvalid\n"}, "tag": "corpus-chain"},
    {"files": {"main.cfg": b"include main.cfg"}, "tag": "corpus-self"},
    {"files": {"main.cfg": b"title a \\\n b \\"}, "tag": "corpus-eof-continuation"},
    {"files": {"main.cfg": b"title x \\\n y"}, "tag": "corpus-continuation-without-final-newline"},
    {"files": {"main.cfg": b"role r\n  :a echo 1 \\\n   && echo 2\nend\ncast\n  a plays r\nend\nscript\n  scene x entails for a: a\n  storyline x \\\n x"}, "tag": "corpus-continuation-without-final-newline"},
    {"files": {"main.cfg": b""}, "tag": "corpus-empty"},
    {"files": {"x.cfg": b""}, "main": "sub", "dirs": ["sub"], "tag": "corpus-main-is-dir"},
    {"files": {"x.cfg": b""}, "main": "nothere.cfg", "tag": "corpus-main-missing"},
]


def run(tier, seed):
    rep = Report(PROP, tier, seed, "proof")
    quick = tier == "quick"
    rep.assumptions = [
        "PARTIAL: the theorems cover the reader (readLine / newSubReader / wrapErr / the parse loop); the regexp-driven clause parsers and govaluate are the model's parameter `classify` — their crash-freedom is generated testing (O-C09), not a theorem",
        "the operating system's view of a path (file, directory, absent, other error) is an input of the model; filepath.Join/Dir/Clean and strings.TrimSpace are re-implemented in the model and tied by K-C09c",
        "inputs <= 4 KiB per file, actor multiplicities <= 50 (thorough) / 8 (quick), include depth up to 12"]
    try:
        build_go()
        retbl = build_regex_tables()   # Gen/ClauseRe.lean from the Go source, before the driver is built
        build_driver()
    except BuildError as e:
        rep.obligation("build", "K", False, e.output)
        rep.violation("build failed: " + e.what, {"output": e.output[-4000:], "broken": "K-C09 (build)"}, nofail=True)
        return rep.finish("./check C09", "n/a")
    ok, info = standard_proof_step(rep, PROP, thorough=not quick)
    reok, reinfo = c09re.proof_step(rep, thorough=not quick)
    rng = SplitMix(seed)
    with Scratch("verif-c09-") as root:
        impl, model = ImplAt(root), Model()
        ctx = Ctx(rep, root, impl, model)
        ctx.iso_every = 3 if quick else 1
        for c in CORPUS:
            check_case(ctx, dict({"dirs": [], "ipath": [], "defines": []}, **c), rng)
        ncases = 2400 if quick else 21000
        mult = 8 if quick else 50
        for i in range(ncases):
            check_case(ctx, gen_case(rng, mult), rng)
        gbad = check_gostr(rep, impl, model, rng, 400 if quick else 5000)
        ebad = check_edit(rep, ctx, rng, 150 if quick else 1500)
        check_extra_script_include(rep, ctx)
        t_re = time.time()
        rex = c09re.run_extra(rep, impl, model, root, rng, quick, retbl, gen_valid)
        rep.count("re-extra-seconds", int(time.time() - t_re + 0.5))
        ctx.ofail += rex["ofail"]
        rep.sample({"case": ctx.kdis[0]["case"] if ctx.kdis else gen_case(SplitMix(seed), 3)["files"]["main.cfg"].decode("latin-1")[:400]})
        restarts = impl.restarts
        impl.close()
        model.close()

    rep.obligation("K-C09a: real loader vs reader model on %d scratch trees (verdict, position, context window, include chain, reader error kind)" % ctx.n,
                   "K", not ctx.kdis, json.dumps(ctx.kdis[:3], default=str)[:1900])
    rep.obligation("K-C09b: syntax check of `edit` vs its model", "K", not ebad, json.dumps(ebad[:3]))
    rep.obligation("K-C09c: filepath.Join / Dir, strings.TrimSpace vs the model's re-implementation", "K", not gbad, json.dumps(gbad[:3]))

    rep.obligation("K-RE: Go regexp.FindStringSubmatchIndex on the source literals vs the Lean matcher over the regenerated table: %d (regexp, line) pairs, "
                   "match / no match and every span" % rex["npairs"], "K", not rex["kdis"], json.dumps(rex["kdis"][:3], default=str)[:1900])

    groups = {}
    for f in ctx.ofail:
        groups.setdefault(json.dumps(f["tags"], sort_keys=True), []).append(f)
    unknown, known_n = [], 0
    for key, fs in sorted(groups.items()):
        f = fs[0]
        if rep.violation(f["what"], {"failing": fs[:5], "count": len(fs)}, tags=f["tags"]):
            unknown.append(f["tags"].get("kind"))
        else:
            known_n += len(fs)
            rep.count("inputs-hitting-a-known-finding", len(fs))
    rep.obligation("O-C09a: no panic, no hang on any input (generated testing of the unmodelled clause parsers; %d harness restarts)" % restarts, "O",
                   not ({"panic", "hang"} & set(unknown)), json.dumps([f["what"] for f in ctx.ofail if f["tags"].get("kind") in ("panic", "hang")][:3]))
    rep.obligation("O-C09b: every real diagnostic is truthful: position exists, first line of the clause, chain, blamed clause invalid alone (inputs matching a known finding excepted)", "O",
                   not [k for k in set(unknown) - {"panic", "hang"} if not str(k).startswith("syntax-oracle")],
                   json.dumps([f["what"] for f in ctx.ofail if f["tags"].get("kind") not in ("panic", "hang", "include-chain-line")
                               and not str(f["tags"].get("kind")).startswith("syntax-oracle")][:3]))
    rep.obligation("O-C09-syntax: %d single clauses inside their section: no regexp of the section's dispatch chain matches (model) => rejected with \"unknown syntax\" "
                   "at that line (%d such clauses, cross-checked through the real loader); some regexp matches => never \"unknown syntax\" there" % (rex["ncases"], rex["nrej"]), "O",
                   not [k for k in unknown if str(k).startswith("syntax-oracle")] and rex["nrej"] > 0,
                   json.dumps([f["what"] for f in ctx.ofail if str(f["tags"].get("kind")).startswith("syntax-oracle")][:3]))
    if not unknown:
        if not ok:
            rep.violation("proof obligations of C09 no longer check", {"broken_theorems": info["failed"], "lean_output": info["output"][-3000:]}, nofail=True)
        elif not reok:
            rep.violation("theorems over the regenerated clause regexps no longer check", {"broken_theorems": reinfo["failed"], "lean_output": reinfo["output"][-3000:]}, nofail=True)
        elif ctx.kdis or ebad or gbad:
            rep.violation("correspondence K-C09 disagrees", {"broken": "K-C09a/b/c", "disagreements": (ctx.kdis + ebad + gbad)[:10]}, nofail=True)
        elif rex["kdis"]:
            rep.violation("correspondence K-RE disagrees: Go's regexp and the Lean matcher differ on a line", {"broken": "K-RE", "disagreements": rex["kdis"][:10]}, nofail=True)
    known_only = bool(groups) and not unknown
    return rep.finish("cd lean && lake build ShkModel.Props.C09 && #print axioms",
                      "scratch trees: grammar-derived configurations (clause shapes of docs/manual.md), 1-3 mutations of them (16 operators), arbitrary bytes, "
                      "include graphs (chains to depth 12, diamonds, cycles, self-include, missing, directories, -I, shadowing, parameters in names), texts split "
                      "over included files; distinct by content hash; non-trivial = at least one line that is not blank or comment",
                      explanation=("%d real diagnostics violate the property, all instances of known findings" % known_n if known_only else None))


def replay(path):
    d = json.load(open(path))
    build_go()
    with Scratch("verif-c09-replay-") as root:
        impl = ImplAt(root)
        for f in d["replay"].get("failing", []):
            c = f["case"]
            write_tree(root, {p: t.encode("latin-1") for p, t in c["files"].items()}, c.get("dirs", []))
            r = impl.parse(c.get("main", "main.cfg"), c.get("ipath", []), c.get("defines", []))
            print(json.dumps({k: r.get(k) for k in ("Ok", "Err", "Panicked", "Panic", "Hung")}))
            print(r.get("ErrFull", ""))
        impl.close()
    return 0
