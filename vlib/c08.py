"""C08 — each matching spotlight line yields exactly one correctly valued data point."""
import html
import json, os, shutil
import re
from fractions import Fraction as F
from .common import *
from . import audgen as g
from . import gen_tables

PROP = "C08"
EPOCH = 1577836800          # 2020-01-01T00:00:00Z, the pinned play start
TEND = 2 * 10**9
TSRE = {"now": r"^(?P<ts_now>)%s=(?P<%s>\S+)$", "deltasecs": r"^(?P<ts_deltasecs>) %s=(?P<%s>\S+)$",
        "rfc3339": r"^(?P<ts_rfc3339>) %s=(?P<%s>\S+)$", "log": r"^(?P<ts_log>) %s=(?P<%s>\S+)$"}
import datetime


def cfg_text(sigs, actors, members):
    out = ["role r", "  spotlight true"]
    for s in sigs:
        pat = TSRE[s["ts"]] % (s["tag"], s["typ"])
        if s.get("pos") == 3:
            # unanchored: matches a part of the line
            pat = "(?P<ts_now>)%s=(?P<%s>%s)" % (s["tag"], s["typ"], "[a-z]+" if s["typ"] == "event" else "[0-9]+")
        elif s.get("pos") == 1:
            pat = pat[:-1] + r"(?: \| .*)?$"
        elif s.get("pos") == 2:
            pat = r"^.* \| " + pat[1:]
        out.append("  signal %s %s at %s" % (s["name"], s["typ"], pat))
    out += ["end", "cast"] + ["  %s plays r" % a for a in actors] + ["end"]
    body = g.config_text({"members": members})
    return "\n".join(out) + "\n" + body


def fmt_ts(kind, rng, secs, bad=False):
    """secs: Fraction seconds after the epoch"""
    if kind == "now":
        return None
    if kind == "deltasecs":
        if secs.denominator == 1:
            return str(secs.numerator) if not rng.chance(1, 5) else "%d.0" % secs.numerator
        s = ("%.3f" % float(secs)).rstrip("0")
        return s[1:] if s.startswith("0.") and rng.chance(1, 2) else s
    dt = datetime.datetime(2020, 1, 1, tzinfo=datetime.timezone.utc) + datetime.timedelta(seconds=int(secs))
    frac = secs - int(secs)
    if kind == "rfc3339":
        base = dt.strftime("%Y-%m-%dT%H:%M:%S")
        if bad:
            base = rng.pick([dt.strftime("%Y-13-%dT%H:%M:%S"), dt.strftime("%Y-02-30T%H:%M:%S"),
                             dt.strftime("%Y-%m-%dT25:%M:%S"), dt.strftime("%Y-%m-%dT%H:61:%S"), dt.strftime("%Y-%m-00T%H:%M:%S")])
        if frac:
            base += ("%.3f" % float(frac))[1:].rstrip("0")
        return base + "Z"
    base = dt.strftime("%y%m%d %H:%M:%S")
    if bad:
        base = rng.pick([dt.strftime("%y13%d %H:%M:%S"), dt.strftime("%y%m32 %H:%M:%S"), dt.strftime("%y%m%d 24:%M:%S")])
    return base + ".%06d" % int(frac * 1000000)


GOODNUM = ["0", "1", "2", "3.5", "-4", "10", "0.25", "7", "7", "1e2", "2.5e-1", "+6", ".5", "5.", "12"]
# (the last two are well-formed numbers beyond the range of float64: a range error of strconv.ParseFloat)
BADNUM = ["abc", "1.2.3", "1e400", "--1", "1e", "e5", "0x", "1,5", "1a", "", ".", "+", "1e+", "-1e999"]
EVTXT = ["ok", "hello", "a<b", "x&y", "ok", 'q"t', "done"]


def gen_pair_case(rng):
    """two signals reading the two records of one line `R1 | R2`, each record with its own date"""
    ts = rng.pick(["deltasecs", "rfc3339", "log", "rfc3339", "log", "now"])
    sigs = [{"name": "s0", "tag": "p", "typ": rng.pick(["scalar", "delta", "event"]), "ts": ts, "pos": 1},
            {"name": "s1", "tag": "q", "typ": rng.pick(["scalar", "delta", "event"]), "ts": ts, "pos": 2}]
    actors = ["a", "b"][:rng.range(1, 2)]
    members = []
    for j, s in enumerate(sigs):
        w = [(a, s["name"]) for a in actors if rng.chance(3, 4)] or [(actors[0], s["name"])]
        members.append({"name": "o%d" % j, "cond": None, "assigns": [], "expect": None, "watches": w})
    lines = []
    t = F(0)
    for _ in range(rng.range(1, 15)):
        t += F(rng.range(0, 5), 2)
        a = rng.pick(actors)
        recs = []
        what = "pair"
        for i, s in enumerate(sigs):
            k = rng.below(10)
            val = rng.pick(EVTXT) if s["typ"] == "event" else rng.pick(GOODNUM)
            if k == 0:
                val = rng.pick(EVTXT + ["x"]) if s["typ"] == "event" else rng.pick(BADNUM[:4])
                what = "pair-badvalue"
            tt = t if i == 0 or rng.chance(1, 4) else t + F(rng.range(1, 8), 2)
            stamp = fmt_ts(ts, rng, tt, bad=(k == 1))
            if k == 1 and stamp is not None:
                what = "pair-baddate"
            body = "%s=%s" % (s["tag"], val)
            recs.append(body if stamp is None else stamp + " " + body)
        k = rng.below(10)
        if k == 0:
            lines.append((a, recs[0], "first-record-only"))
        elif k == 1:
            lines.append((a, recs[1], "second-record-alone"))
        elif k == 2:
            lines.append((a, recs[0] + " | noise | " + recs[1], "three-parts"))
        else:
            lines.append((a, recs[0] + " | " + recs[1], what))
    return sigs, actors, members, lines


def gen_free_case(rng):
    """signals whose patterns match only a part of the line"""
    sigs = [{"name": "s0", "tag": "load", "typ": rng.pick(["scalar", "delta"]), "ts": "now", "pos": 3},
            {"name": "s1", "tag": "st", "typ": "event", "ts": "now", "pos": 3}]
    if rng.chance(1, 2):
        sigs.append({"name": "s2", "tag": "aload", "typ": "scalar", "ts": "now", "pos": 3})      # its tag ends like another one
    actors = ["a", "b"][:rng.range(1, 2)]
    members = [{"name": "o%d" % j, "cond": None, "assigns": [], "expect": None,
                "watches": [(a, s["name"]) for a in actors if rng.chance(3, 4)] or [(actors[0], s["name"])]} for j, s in enumerate(sigs)]
    lines = []
    for _ in range(rng.range(1, 15)):
        a = rng.pick(actors)
        n = str(rng.range(0, 99))
        w = rng.pick(["up", "down", "boot"])
        lines.append((a, rng.pick(["INFO load=%s ms" % n, "load=%s" % n, "x load= load=%s y" % n, "load=x%s" % n, "aload=%s load=%s" % (n, rng.range(0, 9)),
                                   "st=%s now" % w, "INFO st=%s load=%s" % (w, n), "st=UP", "nothing here", "loadst=%s=%s" % (w, n)]), "free"))
    return sigs, actors, members, lines


def gen_case(rng):
    if rng.chance(1, 6):
        return gen_free_case(rng)
    if rng.chance(1, 5):
        return gen_pair_case(rng)
    nsig = rng.range(1, 4)
    share = rng.chance(1, 3)
    sigs = []
    for i in range(nsig):
        typ = rng.pick(["scalar", "delta", "event"])
        ts = rng.pick(["now", "deltasecs", "rfc3339", "log"])
        if share and i == 1:
            # two signals describing the same lines: same time-stamp group, so that they land in one event;
            # one numeric and one textual, so that a capture can be malformed for one and fine for the other
            ts = sigs[0]["ts"]
            typ = "event" if sigs[0]["typ"] != "event" else rng.pick(["scalar", "delta"])
        sigs.append({"name": "s%d" % i, "tag": "v" if share and i < 2 else "t%d" % i, "typ": typ, "ts": ts})
    actors = ["a", "b", "c"][:rng.range(1, 3)]
    members = []
    for j in range(rng.range(1, 3)):
        ev_kind = rng.chance(1, 3) and any(s["typ"] == "event" for s in sigs)
        pool = [s for s in sigs if (s["typ"] == "event") == ev_kind]
        if not pool:
            pool = [s for s in sigs if (s["typ"] == "event") != ev_kind]
        kind = pool[0]["typ"] == "event"
        pool = [s for s in sigs if (s["typ"] == "event") == kind]
        w = []
        for s in pool:
            for a in actors:
                if rng.chance(2, 3):
                    w.append((a, s["name"]))
        if not w:
            w = [(actors[0], pool[0]["name"])]
        members.append({"name": "o%d" % j, "cond": None, "assigns": [], "expect": None, "watches": w})
    scal = [s for s in sigs if s["typ"] != "event"]
    if scal and rng.chance(1, 3):
        s = rng.pick(scal)
        members.append({"name": "aud", "cond": g.TRUE, "assigns": [],
                        "expect": (rng.pick(["always", "eventually", "twice"]), ("bin", "gt", g.var(s["name"], rng.pick(actors)), g.num(2))),
                        "watches": []})
    lines = []
    t = F(0)
    for _ in range(rng.range(0, 25)):
        t += F(rng.range(0, 5), 2)
        a = rng.pick(actors)
        k = rng.below(20)
        s = rng.pick(sigs)
        if k < 12:      # a clean matching line
            val = rng.pick(EVTXT) if s["typ"] == "event" else rng.pick(GOODNUM)
            if s["tag"] == "v" and rng.chance(1, 2):
                val = rng.pick(EVTXT + GOODNUM)      # fine for the event signal, possibly malformed for its numeric twin
            ts = fmt_ts(s["ts"], rng, t)
            what = "match"
        elif k < 14:    # malformed value
            val = rng.pick(EVTXT + ["x y"]) if s["typ"] == "event" else rng.pick(BADNUM)
            ts = fmt_ts(s["ts"], rng, t)
            what = "badvalue"
        elif k < 16:    # malformed date
            val = rng.pick(EVTXT) if s["typ"] == "event" else rng.pick(GOODNUM)
            ts = fmt_ts(s["ts"], rng, t, bad=True)
            what = "baddate"
        elif k < 18:    # no signal at all
            lines.append((a, rng.pick(["noise", "t0 = 5", "x=1 y=2", "", "t0=", "# t0=1", "v= 3"]), "nomatch"))
            continue
        else:           # right tag, wrong time-stamp shape
            val = "1"
            ts = rng.pick(["12:00", "2020-01-01", "1..2", "abc", "200101 00:00:00"])
            what = "badshape"
        body = "%s=%s" % (s["tag"], val)
        lines.append((a, body if ts is None else ts + " " + body, what))
    return sigs, actors, members, lines


def model_tokens_sig(s):
    return "%s:%s:%d:%s" % (hexs(s["name"]), hexs(s["tag"]), g.TYPCODE[s["typ"]], s["ts"]) + (":%d" % s["pos"] if s.get("pos") else "")


def mentions(m):
    res = list(m.get("watches", []))
    es = ([m["cond"]] if m.get("cond") is not None else []) + [a["expr"] for a in m.get("assigns", [])] + ([m["expect"][1]] if m.get("expect") else [])
    for e in es:
        res += g.deps(e)
    return res


def parse_csv(txt):
    rows = []
    for l in txt.splitlines():
        m = re.match(r'^(\S+) (".*"|\S+) (\S+)$', l)
        if not m:
            rows.append(("?", l))
            continue
        v = m.group(2)
        if v.startswith('"'):
            v = html.unescape(json.loads(v))
        else:
            v = float(v)
        rows.append((float(m.group(1)), v))
    return rows


def row_eq(real, exp):
    """exp: (stamp 'now'|Fraction, value Fraction|str)"""
    rt, rv = real
    et, evv = exp
    if et == "now":
        if not (isinstance(rt, float) and rt > 1e8):
            return False
    else:
        if not (isinstance(rt, float) and abs(rt - float(et)) <= 1e-3):
            return False
    if isinstance(evv, str) or isinstance(rv, str):
        return rv == evv
    return abs(rv - float(evv)) <= 1e-9 * max(1.0, abs(rv))


def run(tier, seed):
    rep = Report(PROP, tier, seed, "proof")
    rep.assumptions = ["Go's regexp decides whether a pattern matches; the model re-implements matching for the record pattern family only (whole line, first record, last record of `R1 | R2`)",
                       "strconv.ParseFloat / time.Parse are modelled for decimal literals and fixed-layout UTC dates",
                       "reception time (ts_now) is only checked to be a wall-clock stamp"]
    try:
        build_go()
        impl = Impl()
        gen_tables.regenerate(impl.call("automata"))
        build_driver()
    except BuildError as e:
        rep.obligation("build", "K", False, e.output)
        rep.violation("build failed: " + e.what, {"output": e.output[-4000:], "broken": "K-C08 (build)"}, nofail=True)
        return rep.finish("./check C08", "n/a")
    model = Model()
    ok, info = standard_proof_step(rep, PROP, thorough=(tier == "thorough"))
    rng = SplitMix(seed)
    kdis, ofail = [], []
    n = 300 if tier == "quick" else 6000
    corpus = [([{"name": "s0", "tag": "t0", "typ": "scalar", "ts": "deltasecs"}], ["a"],
               [{"name": "o0", "cond": None, "assigns": [], "expect": None, "watches": [("a", "s0")]}],
               [("a", "1 t0=3", "match"), ("a", "2 t0=4", "match"), ("a", "3 t0=4", "match")])]
    cases = corpus + [gen_case(rng) for _ in range(n)]
    # one case in three: the last pure observer is marked `only helps` (no plot box — its data points are still due)
    for ci, (_, _, mems, _) in enumerate(cases):
        obs = [m for m in mems if m.get("watches") and not m.get("expect") and not m.get("assigns")]
        if ci % 3 == 1 and obs:
            obs[-1]["only_helps"] = True
            rep.count("observer marked `only helps`")
    for sigs, actors, members, lines in cases:
        text = cfg_text(sigs, actors, members)
        r = impl.call("audition", Args={"Parse": {"Text": text}, "EpochUnix": EPOCH, "WithCollector": True,
                                        "Lines": [{"Actor": a, "Line": l} for a, l, _ in lines]})
        cerr = r.get("CollectorErr") or ""
        if "fouling the play" in cerr or "audit failed" in cerr:
            cerr = ""       # the verdict of an auditor, not a failure of the run
        if r.get("Panicked") or r.get("harnessCrash") or r.get("Err") or cerr:
            ofail.append({"config": text, "lines": lines, "problem": "the run failed: %s %s %s" % (r.get("Err"), r.get("CollectorErr"), r.get("Panic")),
                          "tag": {"kind": "crash"}})
            continue
        csv = {k: parse_csv(v) for k, v in (r.get("Csv") or {}).items() if not k.startswith("audit-")}
        for _, _, w in lines:
            rep.count("line:" + w)
        rep.case(json.dumps([text, lines]), nontrivial=any(w == "match" for _, _, w in lines))
        ltoks = ["%s:%s" % (hexs(a), hexs(l.strip())) for a, l, _ in lines]
        # ---- O: the specification `pointsOf` per watched (actor, signal), on the real CSV files
        expected_files = {}
        for s in sigs:
            for a in actors:
                ws = [m["name"] for m in members if (a, s["name"]) in mentions(m)]
                if not ws:
                    continue
                mine = [t for t, (aa, _, _) in zip(ltoks, lines) if aa == a]
                ans = model.ask("C08 points %d %s %d %s" % (EPOCH, model_tokens_sig(s), len(mine), " ".join(mine)))
                pts = []
                for it in ([] if ans in ("-", None) else ans.split(",")):
                    st, _, v = it.partition("=")
                    pts.append(("now" if st == "now" else F(*map(int, st.split("/"))), g.parse_model_val(v)))
                rep.count("points", len(pts))
                for w in ws:
                    fn = "%s.%s.%s.csv" % (w, a, s["name"])
                    expected_files[fn] = pts
        for fn, pts in expected_files.items():
            real = csv.get(fn, [])
            if len(real) != len(pts) or not all(row_eq(x, y) for x, y in zip(real, pts)):
                ofail.append({"config": text, "lines": lines, "file": fn, "real_rows": [str(x) for x in real], "expected_points": [str(x) for x in pts],
                              "tag": {"kind": "duplicate" if len(real) > len(pts) else ("missing" if len(real) < len(pts) else "value")}})
        for fn in csv:
            if fn not in expected_files and csv[fn]:
                ofail.append({"config": text, "lines": lines, "file": fn, "real_rows": [str(x) for x in csv[fn]], "expected_points": [],
                              "tag": {"kind": "unexpected-file"}})
        # ---- K: detect + audit model vs the real pipeline, on the observation stream
        req = "C08 pipeline %d %d %s %d %s %d %s %d" % (EPOCH, len(sigs), " ".join(model_tokens_sig(s) for s in sigs), len(members),
                                                        " ".join(" ".join(g.member_tokens(m)) for m in members), len(lines), " ".join(ltoks), TEND)
        ms = model.ask(req)
        if ms is None or ms.startswith("bad-op"):
            kdis.append({"config": text, "problem": "model: %s" % ms})
            continue
        body, _, rows_txt = ms.partition(" || rows=")
        mo = g.parse_model(body + " || ")
        im = g.parse_impl(r)
        # K on the collector's fan-out: the model's rows per file vs the real CSV files
        mfiles = {}
        for it in ([] if rows_txt in ("-", "") else rows_txt.split(",")):
            ob, ac, sg, ts_, val_ = it.split(":", 4)
            fn = "%s.%s.%s.csv" % (g.unhex(ob), g.unhex(ac), g.unhex(sg))
            tsq = F(*map(int, ts_.split("/")))
            mfiles.setdefault(fn, []).append(("now" if tsq > 10**8 else tsq, g.parse_model_val(val_)))
        for fn in set(mfiles) | {k for k in csv if csv[k]}:
            real, mod = csv.get(fn, []), mfiles.get(fn, [])
            if len(real) != len(mod) or not all(row_eq(x, y) for x, y in zip(real, mod)):
                kdis.append({"config": text, "lines": lines, "file": fn, "real_rows": [str(x) for x in real][:8], "model_rows": [str(x) for x in mod][:8]})
                break
        keep = lambda it: it[0] == "obs" and it[3][0] != ""
        a_ = [(it[3], it[4], "now" if float(it[1]) > 1e8 else round(float(it[1]), 3)) for it in im["stream"] if keep(it)]
        b_ = [(it[3], it[4], "now" if float(it[1]) > 1e8 else round(float(it[1]), 3)) for it in mo["stream"] if keep(it)]
        same = len(a_) == len(b_) and all(x[0] == y[0] and x[2] == y[2] and g.num_eq(x[1], y[1]) for x, y in zip(a_, b_))
        if not same:
            kdis.append({"config": text, "lines": lines, "impl_obs": [str(x) for x in a_][:12], "model_obs": [str(x) for x in b_][:12]})
        rep.sample({"config": text, "lines": lines[:6], "csv": {k: [str(x) for x in v[:4]] for k, v in csv.items()}}, cap=2)
    # ---- E-C08: the spotlight manager on the real binary: each actor's lines are attributed to that actor ----
    # (the pattern is anchored at both ends: the spotlight script runs under `set -x` and its trace lines, e.g.
    # `+ echo v=1`, are scanned like any other line of its output)
    from . import e2e
    nact = 3
    etext = ("role meter\n  :wait sleep 0.4\n  spotlight echo \"v=$((i+1))\"; echo \"v=$((i+11))\" >&2; sleep 30\n"
             "  signal v scalar at ^(?P<ts_now>)v=(?P<scalar>\\d+)$\nend\ncast\n  m* play %d meter\nend\nscript\n  tempo 100ms\n"
             "  scene w entails for m1: wait\n  storyline w\nend\naudience\n  obs watches every meter v\nend\n" % nact)
    eplays = [e2e.Play(etext, timeout=30) for _ in range(2 if tier == "quick" else 6)]
    for er in e2e.run_many(eplays, workers=4):
        rep.count("e2e-spotlight-plays")
        for k in range(nact):
            fn = "obs.m%d.v.csv" % (k + 1)
            vals = sorted(float(l.split()[1]) for l in er["csv"].get(fn, "").splitlines() if len(l.split()) >= 2)
            if vals != [float(k + 1), float(k + 11)]:
                ofail.append({"config": etext, "lines": [], "file": fn, "real_rows": [str(v) for v in vals], "expected_points": [str(float(k + 1)), str(float(k + 11))],
                              "tag": {"kind": "attribution"}})
    # lines that match nothing — empty, blank, padded — between the matching ones: every matching line still counts
    gaps = ("role meter\n  :wait sleep 0.8\n"
            "  spotlight echo \"v=1\"; echo; echo \"v=2\"; echo \"   \"; echo \"  v=3  \"; echo; echo; printf \"\\t\\n\"; echo \"v=4\"; echo \"noise\"; echo \"v=5\"; sleep 30\n"
            "  signal v scalar at ^(?P<ts_now>)v=(?P<scalar>\\d+)$\nend\ncast\n  m plays meter\nend\nscript\n  tempo 100ms\n"
            "  scene w entails for m: wait\n  storyline w\nend\naudience\n  obs watches m v\nend\n")
    for er in e2e.run_many([e2e.Play(gaps, timeout=30) for _ in range(2 if tier == "quick" else 5)], workers=4):
        rep.count("e2e-spotlight-plays with blank lines")
        vals = [float(l.split()[1]) for l in er["csv"].get("obs.m.v.csv", "").splitlines() if len(l.split()) >= 2]
        if vals != [1.0, 2.0, 3.0, 4.0, 5.0]:
            ofail.append({"config": gaps, "lines": [], "file": "obs.m.v.csv", "real_rows": [str(v) for v in vals],
                          "expected_points": ["1", "2", "3", "4", "5"], "tag": {"kind": "lines-after-blank-lines"},
                          "problem": "the spotlight prints empty and blank lines between its samples: every sample must still be recorded"})
    # a long line (longer than any buffer of the line reader: 5 000 and 70 000 characters): one data point, the whole text
    longp = ("role logger\n  :wait sleep 0.8\n"
             "  spotlight echo \"msg first\"; printf 'msg %s\\n' \"$(head -c 5000 /dev/zero | tr '\\0' x)END\"; "
             "printf 'msg %s\\n' \"$(head -c 70000 /dev/zero | tr '\\0' y)END\"; echo \"msg last\"; sleep 30\n"
             "  signal msg event at ^(?P<ts_now>)msg (?P<event>.*)$\nend\ncast\n  m plays logger\nend\nscript\n  tempo 100ms\n"
             "  scene w entails for m: wait\n  storyline w\nend\naudience\n  obs watches m msg\nend\n")
    for er in e2e.run_many([e2e.Play(longp, timeout=30) for _ in range(1 if tier == "quick" else 3)], workers=3):
        rep.count("e2e-spotlight-plays with long lines")
        rows = [l for l in er["csv"].get("obs.m.msg.csv", "").splitlines() if l.strip()]
        texts = [l.split('"')[1] if '"' in l else "" for l in rows]
        want = ["first", "x" * 5000 + "END", "y" * 70000 + "END", "last"]
        if texts != want:
            ofail.append({"config": longp, "lines": [], "file": "obs.m.msg.csv",
                          "real_rows": ["%d characters ending in %s" % (len(t), t[-8:]) for t in texts],
                          "expected_points": ["%d characters ending in %s" % (len(t), t[-8:]) for t in want],
                          "tag": {"kind": "long-line"}, "problem": "a long spotlight line is one sample: one data point carrying the whole captured text"})
    # a dropped line leaves no trace: no data point, and no audit round at its time stamp either (an observer of `t`
    # sees one row per round)
    for badline, why in (("100 t0=oops", "malformed number"), ("100 t0=", "empty number"), ("100 t0=1e", "truncated exponent")):
        psigs = [{"name": "s0", "tag": "t0", "typ": "scalar", "ts": "deltasecs"}]
        pmem = [{"name": "o0", "cond": None, "assigns": [], "expect": None, "watches": [("a", "s0"), ("", "t")]}]
        plines = [("a", "1 t0=3"), ("a", badline), ("a", "2 t0=4")]
        ptext = cfg_text(psigs, ["a"], pmem)
        pr = impl.call("audition", Args={"Parse": {"Text": ptext}, "EpochUnix": EPOCH, "WithCollector": True, "Lines": [{"Actor": a, "Line": l} for a, l in plines]})
        rows = [l.split()[0] for l in ((pr.get("Csv") or {}).get("o0..t.csv") or "").splitlines() if l.split()]
        rep.case(("dropped-line-round", badline))
        rep.count("dropped line: rounds observed through `watches t`")
        if any(abs(float(x) - 100.0) < 1e-6 for x in rows):
            ofail.append({"config": ptext, "lines": plines, "file": "o0..t.csv", "real_rows": rows, "expected_points": ["rounds at 0, 1, 2 and the end of the play only"],
                          "tag": {"kind": "round-for-a-dropped-line"}, "problem": "%s: the dropped line still caused an audit round at its time stamp" % why})
    # a large cast: 40 actors, each with a watched signal that speaks twice, some time apart (40 + 40 data files are
    # written to in turn: every file must still hold all its points at the end)
    big = ("role meter\n  :wait sleep 1.2\n  spotlight echo \"v=$((i+1))\"; sleep 0.6; echo \"v=$((i+101))\"; sleep 30\n"
           "  signal v scalar at ^(?P<ts_now>)v=(?P<scalar>\\d+)$\nend\ncast\n  m* play 40 meter\nend\nscript\n  tempo 100ms\n"
           "  scene w entails for every meter: wait\n  storyline w\nend\naudience\n  obs watches every meter v\nend\n")
    for er in e2e.run_many([e2e.Play(big, timeout=60)], workers=1):
        rep.count("e2e-large-cast-plays")
        for k in range(40):
            fn = "obs.m%d.v.csv" % (k + 1)
            vals = sorted(float(l.split()[1]) for l in er["csv"].get(fn, "").splitlines() if len(l.split()) >= 2)
            if vals != [float(k + 1), float(k + 101)]:
                ofail.append({"config": big, "lines": [], "file": fn, "real_rows": [str(v) for v in vals], "expected_points": [str(float(k + 1)), str(float(k + 101))],
                              "tag": {"kind": "large-cast"}})
                break
    # "every pace at which lines arrive": a spotlight that prints faster than it is read, stopped at the end of the play.
    # Every line `tee` has copied to written.txt had been written to the pipe before (tee serves its standard output
    # first): each must have become a data point.
    chatty = ("role r\n  :go sleep 1\n  spotlight seq 1 200000 | sed -e \"s/^/n /\" | tee written.txt; sleep 20\n"
              "  signal n scalar at (?P<ts_now>)^n (?P<scalar>\\d+)$\nend\ncast\n  x plays r\nend\nscript\n  tempo 100ms\n"
              "  scene a entails for x: go\n  storyline a\nend\naudience\n  o1 watches x n\nend\n")
    pipe_lost = []
    for er in e2e.run_many([e2e.Play(chatty, args=["-k"], timeout=60, keep=True)], workers=1):
        rep.count("e2e-chatty-spotlight-plays")
        try:
            written = len(open(os.path.join(er["rundir"], "artifacts", "x", "written.txt")).read().splitlines())
        except (OSError, TypeError):
            written = None
        points = len((er["csv"].get("o1.x.n.csv") or "").splitlines())
        rep.sample({"chatty_spotlight": {"lines_written_to_the_pipe": written, "data_points": points}})
        if written is not None and points < written:
            pipe_lost.append({"config": chatty, "lines": [], "file": "o1.x.n.csv", "real_rows": ["%d data points" % points], "expected_points": ["%d lines were printed before the spotlight was stopped" % written],
                              "tag": {"kind": "lines-in-the-pipe-at-the-stop"}})
        shutil.rmtree(er["cwd"], ignore_errors=True)
    pipe_known = bool(pipe_lost) and rep.match_known({"kind": "lines-in-the-pipe-at-the-stop"}) is not None
    rep.obligation("O-C08p: a spotlight stopped at the end of the play loses none of the lines it had printed%s" % (" — the known finding excepted (it fails as recorded)" if pipe_known else ""),
                   "O", (not pipe_lost) or pipe_known, json.dumps(pipe_lost[:1])[:600])
    for f in pipe_lost:
        rep.violation("%s: %s, %s" % (f["file"], f["real_rows"][0], f["expected_points"][0]), f, tags=f["tag"])
    rep.obligation("K-C08: detectSignals + audit loop vs model on the forwarded observations (%d cases)" % len(cases), "K", not kdis, json.dumps(kdis[:2])[:1800])
    rep.obligation("O-C08: every CSV file holds exactly the points its lines denote (pointsOf) (real collector)", "O", not ofail, json.dumps(ofail[:2])[:1800])
    if ofail:
        seen = set()
        for f in ofail:
            k = json.dumps(f["tag"])
            if k in seen:
                continue
            seen.add(k)
            rep.violation("%s: rows %s, the lines denote %s" % (f.get("file"), f.get("real_rows"), f.get("expected_points")) if "file" in f else f["problem"], f, tags=f["tag"])
    else:
        if not ok:
            rep.violation("proof obligations of C08 no longer check", {"broken_theorems": info["failed"], "lean_output": info["output"][-3000:]}, nofail=True)
        elif kdis:
            rep.violation("correspondence K-C08 disagrees", {"broken": "K-C08", "disagreements": kdis[:5]}, nofail=True)
    impl.close()
    model.close()
    return rep.finish("cd lean && lake build ShkModel.Props.C08 && #print axioms",
                      "random roles (1-4 signals of all three types and four time-stamp kinds, optionally sharing a tag), 1-3 actors, 1-3 observers and an optional auditor; 0-25 lines mixing clean matches, malformed values, malformed dates, wrong shapes and noise; one case in five has two signals reading the two records of lines `R1 | R2` with their own dates; a case is non-trivial when at least one line matches")
