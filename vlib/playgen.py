"""Generated plays for the end-to-end properties (C04, C05, C07): scripts whose actions write a
ledger (wall-clock start / end, exit status) next to the configuration."""
import re
from .common import hexs

LEDGER = "../../../../play.ledger"      # from an actor's work dir (out/<run>/artifacts/<actor>) to the play's cwd


def action_cmd(name, sleep_s, exit_code=0):
    if exit_code < 0:
        # the command dies from a signal (no exit status of its own, no `B` record)
        return ('echo "$(basename $PWD).%s A $(date +%%s%%N)" >> %s; sleep %s; kill -KILL $$' % (name, LEDGER, sleep_s))
    return ('echo "$(basename $PWD).%s A $(date +%%s%%N)" >> %s; sleep %s; echo "$(basename $PWD).%s B $(date +%%s%%N) %d" >> %s; exit %d'
            % (name, LEDGER, sleep_s, name, exit_code, LEDGER, exit_code))


def gen_play(rng, fail_at=None, tolerated=False, nacts=None, repeat=None, long_actions=True, spotlight=None, cleanup=None,
             tolerated_before=False, fail_code=None, edit_first=False):
    """returns dict(text, actions{name:(sleep, exit)}, tempo_ms, story)"""
    actors = ["a", "b", "c"][:rng.range(1, 3)]
    tempo = rng.pick([40, 60, 80, 120])
    nscenes = rng.range(2, 5)
    chars = "pqrstuv"[:nscenes]
    actions = {}
    scene_lines = []
    for ch in chars:
        used = [a for a in actors if rng.chance(2, 3)] or [actors[0]]
        for a in used:
            steps = []
            for k in range(rng.range(2 if tolerated_before else 1, 2 if (len(used) > 1 and not tolerated_before) else 3)):
                nm = "%s%s%d" % (ch, a, k)
                d = rng.pick([0, 0.01, 0.02, 0.03] + ([0.1, 0.15, 0.2] if long_actions else []))
                actions[nm] = [d, 0]
                steps.append(nm)
            scene_lines.append((ch, a, steps))
    nacts = nacts or rng.range(1, 3)
    acts = []
    for _ in range(nacts):
        cols = []
        for _ in range(rng.range(1, 4)):
            k = rng.below(10)
            if k < 2:
                cols.append(".")
            elif k < 4 and len(chars) >= 2:
                grp = rng.shuffle(list(chars))[:2]
                cols.append("+".join(grp))
            else:
                cols.append(rng.pick(chars))
        if all(c == "." for c in cols):
            cols[0] = chars[0]
        if acts and rng.chance(1, 3):
            # an act that begins with as many empty columns as the previous act has columns: its first group is due
            # at the very offset the previous act ended at
            prev = acts[-1]
            cols = ["."] * (len(prev) - 2 * prev.count("+")) + [c for c in cols if c != "."][:2]
        acts.append("".join(cols))
    # failure injection: the n-th action name in script order fails
    marks = {}
    # `?` marks on actions that succeed anyway: they must not change anything
    for nm in sorted(actions):
        if rng.chance(1, 5):
            marks[nm] = "?"
    if fail_at is not None:
        names = sorted(actions)
        if tolerated_before:
            # the failing action follows, in its own line, an action that carries a `?`
            later = [n for n in names if not n.endswith("0")]
            nm = later[fail_at % len(later)]
            marks[nm[:-1] + str(int(nm[-1]) - 1)] = "?"
        else:
            nm = names[fail_at % len(names)]
            if tolerated:
                # prefer a tolerated failure that is followed by another action of its line: the line must go on
                followed = [n for n in names if n[:-1] + str(int(n[-1]) + 1) in actions]
                if followed:
                    nm = followed[fail_at % len(followed)]
        actions[nm][1] = fail_code if fail_code is not None else rng.pick([3, 3, -9])       # exits with a status, or is killed by a signal
        marks[nm] = "?" if tolerated else ""
    out = ["role r"]
    for nm, (d, ec) in sorted(actions.items()):
        out.append("  :%s %s" % (nm, action_cmd(nm, d, ec)))
    if spotlight:
        out.append("  spotlight %s" % spotlight)
    if cleanup:
        out.append("  cleanup %s" % cleanup)
    out += ["end", "cast"] + ["  %s plays r" % a for a in actors] + ["end", "script", "  tempo %dms" % tempo]
    for ch, a, steps in scene_lines:
        out.append("  scene %s entails for %s: %s" % (ch, a, "; ".join(s + marks.get(s, "") for s in steps)))
    out.append("  storyline " + " ".join(acts))
    if repeat:
        out.append("  repeat from %s" % repeat["from"])
        if repeat.get("count") is not None:
            out.append("  repeat %d times" % repeat["count"])
        if repeat.get("time"):
            out.append("  repeat time %s" % repeat["time"])
        if edit_first and repeat["from"] in acts[0] and any(repeat["from"] in a for a in acts[1:]):
            # an edit AFTER the repeat clause that takes the repeated scene out of the first act (same number of acts):
            # the repetition must then start at the next act that matches
            other = [c for c in chars if c != repeat["from"]]
            new0 = acts[0].replace(repeat["from"], other[0] if other else ".")
            out.append("  edit s/^%s/%s/" % (re.sub(r"([+.])", r"\\\1", acts[0]), new0))
    out.append("end")
    return {"text": "\n".join(out) + "\n", "actions": actions, "tempo_ms": tempo, "acts": acts, "actors": actors,
            "failing": [n for n, (d, e) in actions.items() if e != 0], "tolerated": tolerated,
            "marked": sorted(n for n, m in marks.items() if m == "?")}


def play_tokens(play_json):
    """compiled play (from the real compiler, op `parse`) -> model token; mood-only lines dropped"""
    acts = []
    for act in play_json or []:
        scenes = []
        for sc in act["Scenes"]:
            lines = []
            for ln in sc["Lines"] or []:
                steps = [st for st in ln["Steps"] or [] if not st["Mood"]]
                if not ln["Actor"] or not steps:
                    continue
                lines.append("%s~%s" % (hexs(ln["Actor"]), ",".join(hexs(st["Action"]) + ("?" if st["FailOk"] else "!") for st in steps)))
            scenes.append("%d:%s" % (sc["WaitUntilNs"], "|".join(lines)))
        acts.append(";".join(scenes))
    return "/".join(acts) or "-"


def positions(play_json):
    """script positions (act, scene, line, step) -> (actor, action, failOk); line indices count only actor lines"""
    res = {}
    for j, act in enumerate(play_json or []):
        for i, sc in enumerate(act["Scenes"]):
            ln_i = 0
            for ln in sc["Lines"] or []:
                steps = [st for st in ln["Steps"] or [] if not st["Mood"]]
                if not ln["Actor"] or not steps:
                    continue
                for k, st in enumerate(steps):
                    res[(j, i, ln_i, k)] = (ln["Actor"], st["Action"], st["FailOk"])
                ln_i += 1
    return res


def parse_ledger(txt):
    """-> list of dict(actor, action, start, stop, status) in order of start; unfinished entries have stop None"""
    starts, res = {}, []
    for l in txt.splitlines():
        m = re.match(r"^(\S+)\.(\S+) (A|B) (\d+)(?: (\d+))?$", l)
        if not m:
            continue
        key = (m.group(1), m.group(2))
        if m.group(3) == "A":
            e = {"actor": key[0], "action": key[1], "start": int(m.group(4)), "stop": None, "status": None}
            starts.setdefault(key, []).append(e)
            res.append(e)
        else:
            for e in starts.get(key, []):
                if e["stop"] is None:
                    e["stop"] = int(m.group(4))
                    e["status"] = int(m.group(5) or 0)
                    break
    return res


def parse_actor_csv(txt):
    rows = []
    for l in txt.splitlines():
        m = re.match(r'^(\S+) (\S+) (\S+) (\d+) "(.*)"$', l)
        if m:
            rows.append({"start": float(m.group(1)), "dur": float(m.group(2)), "action": m.group(3), "status": int(m.group(4)), "output": m.group(5)})
    return rows
