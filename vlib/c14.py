"""C14 — no data race between prompter, spotlights, auditors, collector (partial).

Static side: the translator harness/cmd/vaccess regenerates the access table of pkg/cmd from the
working tree (lean/ShkModel/Gen/Access.lean); the kernel evaluates `disciplineOk` on it
(Shk.C14.table_ok) and `Shk.C14.discipline_sound` says what that buys.
Dynamic side: the real program built with `-race` runs generated plays; a `WARNING: DATA RACE`
report is a concrete failing input.  It never stands in for the theorem."""
import glob
import json
import os
import re
import signal
import subprocess
import tempfile
import time
from .common import *
from . import e2e

PROP = "C14"
GEN = os.path.join(LEAN, "ShkModel", "Gen", "Access.lean")
FACTS = os.path.join(BUILD, "c14-access.json")
RACEBIN = os.path.join(BUILD, "shakespeare-race")
VACCESS_DIR = os.path.join(HARNESS, "cmd", "vaccess")
TOOLS_VERSION = "v0.29.0"


# ------------------------------------------------------------------------------------------------
# builds

def build_vaccess():
    """the translator lives in its own nested module so that golang.org/x/tools does not change the
    dependency versions of the harness that is linked with the code under test"""
    gomod = ("module vaccess\n\ngo 1.23\n\nrequire golang.org/x/tools %s\n\n"
             "require (\n\tgolang.org/x/mod v0.22.0 // indirect\n\tgolang.org/x/sync v0.10.0 // indirect\n)\n" % TOOLS_VERSION)
    write_if_changed(os.path.join(VACCESS_DIR, "go.mod"), gomod)
    rc, out = sh(["go", "build", "-o", os.path.join(BUILD, "vaccess"), "."], cwd=VACCESS_DIR, env=GOENV)
    if rc != 0:
        raise BuildError("the translator (vaccess) does not build", out)


def build_race(ov):
    rc, out = sh(["go", "build", "-race", "-overlay", ov, "-o", RACEBIN, "."], cwd=REPO, env=GOENV)
    if rc != 0:
        raise BuildError("shakespeare does not build with -race", out)


def regenerate(ov):
    """run the translator on the working tree; the old table is gone whatever happens"""
    tmp_lean = os.path.join(BUILD, "c14-Access.lean")
    for f in (tmp_lean, FACTS):
        try:
            os.remove(f)
        except FileNotFoundError:
            pass
    rc, out = sh([os.path.join(BUILD, "vaccess"), "-repo", REPO, "-overlay", ov, "-lean", tmp_lean, "-json", FACTS], env=GOENV)
    if rc != 0 or not os.path.exists(tmp_lean):
        try:
            os.remove(GEN)
        except FileNotFoundError:
            pass
        raise BuildError("the translator failed on the working tree", out)
    write_if_changed(GEN, open(tmp_lean).read())      # keeps lake's cache when nothing changed
    return json.load(open(FACTS)), out.strip()


# ------------------------------------------------------------------------------------------------
# which locations fail the policy (for the replay file of a broken table_ok)

def failing_locations(facts):
    src = ("import ShkModel.Model.RacePolicy\nopen Shk.Race Shk.Gen\n"
           "#eval (failing table pol).map (fun l => locNames[l]!)\n"
           "#eval (table.roots.map (·.leaks)).flatten.filter (fun s => !allowedLeaks.contains s)\n")
    p = os.path.join(BUILD, "c14-failing.lean")
    with open(p, "w") as f:
        f.write(src)
    ok, out = lake_build(["ShkModel.Model.RacePolicy"])
    if not ok:
        return None, out
    rc, out = sh(["lake", "env", "lean", p], cwd=LEAN)
    names = re.findall(r'"((?:[^"\\]|\\.)*)"', out)
    res = []
    for sw in facts.get("sentThenWritten") or []:
        res.append({"sentThenWritten": sw["loc"], "fn": sw["fn"], "pos": sw["pos"], "how": sw["how"],
                    "sent": "%s at %s" % (sw["sentHow"], sw["sentPos"]),
                    "why": "a field of the object is written after the pointer to it was sent on a channel (the receiver owns it): "
                           "rejected by stwOk unless the policy protects the location by `atomic` or `locked`"})
    for n in names:
        n = n.encode().decode("unicode_escape") if "\\" in n else n
        rows = [a for a in facts["accesses"] if a["loc"] == n]
        if rows:
            res.append({"location": n, "why": "the accesses of this location do not satisfy its policy entry (or it is shared, written and has none)",
                        "accesses": [{"root": a["root"], "fn": a["fn"], "pos": a["pos"], "write": a["write"], "atomic": a["atomic"],
                                      "locks": a["locks"], "preDone": a["preDone"], "rel": a["rel"], "via": a["via"]} for a in rows][:40]})
        else:
            res.append({"leak": n, "why": "an exit of a joining function skips the join and is not on the allowed list"})
    return res, out


# ------------------------------------------------------------------------------------------------
# generated plays

SIGS = [("v", "scalar"), ("d", "delta"), ("e", "event")]


def gen_play(rng, idx, long=False):
    """a play with several actors (spotlights + three kinds of signals), concurrent lines, moods, auditors with
    computed and collected variables, optionally repeats, a failing action, -S, a signal to the process."""
    nact = rng.range(1, 4)
    actors = ["a", "b", "c", "d"][:nact]
    with_spot = rng.chance(5, 6)
    feats = {"actors": nact, "spotlight": with_spot}
    out = ["role worker"]
    acts = {}
    for k in range(rng.range(2, 4)):
        nm = "act%d" % k
        parts = []
        for _ in range(rng.range(1, 3)):
            s, t = rng.pick(SIGS)
            val = rng.pick(["up", "down", "x"]) if t == "event" else str(rng.range(0, 40))
            parts.append('echo "%s=%s" >> sig.log' % (s, val))
            if rng.chance(1, 3):
                parts.append("sleep 0.0%d" % rng.range(1, 6))
        acts[nm] = "; ".join(parts)
        out.append("  :%s %s" % (nm, acts[nm]))
    out.append('  :fail echo "v=1" >> sig.log; exit 1')
    out.append("  :slow sleep 0.3")
    if with_spot:
        out.append("  spotlight touch sig.log; tail -F sig.log")
        for s, t in SIGS:
            out.append("  signal %s %s at (?P<ts_now>)%s=(?P<%s>\\S+)" % (s, t, s, t))
    if rng.chance(2, 3):
        out.append("  cleanup rm -f sig.log")
        feats["cleanup"] = True
    out += ["end", "cast"] + ["  %s plays worker" % a for a in actors] + ["end", "script", "  tempo %dms" % rng.pick([30, 50, 80])]
    chars = "pqrs"[:rng.range(2, 4)]
    fail_mode = rng.pick(["none", "none", "fail", "tolerated", "S"]) if not long else "none"
    feats["fail"] = fail_mode
    fail_placed = False
    nconc = 0
    for ch in chars:
        used = [a for a in actors if rng.chance(2, 3)] or [actors[0]]
        nconc = max(nconc, len(used))
        for a in used:
            steps = [rng.pick(sorted(acts)) for _ in range(rng.range(1, 3))]
            if rng.chance(1, 6):
                steps.append("slow")
            if fail_mode in ("fail", "tolerated", "S") and not fail_placed and ch != chars[0]:
                steps.insert(rng.below(len(steps) + 1), "fail?" if fail_mode == "tolerated" else "fail")
                fail_placed = True
            out.append("  scene %s entails for %s: %s" % (ch, a, "; ".join(steps)))
        if rng.chance(1, 2):
            out.append("  scene %s mood %s %s" % (ch, rng.pick(["starts", "ends"]), rng.pick(["red", "blue", "clear"])))
    feats["concurrent_lines"] = nconc
    nlines = rng.range(1, 2)
    length = rng.range(3, 6)
    for _ in range(nlines):
        sl = []
        for _ in range(length):
            k = rng.below(8)
            sl.append("." if k < 2 else ("+".join(rng.shuffle(list(chars))[:2]) if k < 4 else rng.pick(chars)))
        out.append("  storyline " + "".join(sl))
    if rng.chance(1, 3):
        out.append("  repeat from %s" % rng.pick(chars))
        out.append("  repeat %d times" % rng.range(2, 3))
        feats["repeat"] = True
    out.append("end")
    # audience
    aud = ["audience"]
    nobs = 0
    if with_spot:
        for a in actors:
            for s, _ in SIGS:
                if rng.chance(1, 2):
                    aud.append("  obs watches %s %s" % (a, s))
                    nobs += 1
        a0 = rng.pick(actors)
        if rng.chance(3, 4):
            aud += ["  aud audits throughout", "  aud computes x as [%s v] + 1" % a0,
                    "  aud collects xs as last 3 x", "  aud expects %s: x >= 0" % rng.pick(["always", "eventually", "always eventually"])]
            feats["auditor"] = True
        if rng.chance(1, 2):
            aud += ["  moody audits only while mood == 'red'", "  moody computes y as [%s d] * 2" % rng.pick(actors),
                    "  moody expects %s: y > 1000" % rng.pick(["never", "not always"])]
            feats["mood_auditor"] = True
        if fail_mode == "S":
            aud += ["  strict audits throughout", "  strict expects never: [%s v] == 1" % a0]
    else:
        aud += ["  aud audits throughout", "  aud expects always: t >= 0"]
    aud.append("end")
    if len(aud) > 2:
        out += aud
    args = []
    if fail_mode == "S":
        args.append("-S")
    sigspec = None
    if not long and rng.chance(1, 6):
        sigspec = (rng.pick([0.15, 0.3, 0.5]), rng.pick([signal.SIGINT, signal.SIGTERM]))
        feats["signal"] = sigspec[1].name
    if rng.chance(1, 5):
        args.append("-q")
    res = {"name": "gen%d" % idx, "text": "\n".join(out) + "\n", "args": args, "sigspec": sigspec, "features": feats}
    if sigspec is None and idx % 4 == 1:
        # standard output is a terminal that is being resized while the play narrates (the resize handler runs in a
        # goroutine of its own and publishes the width to everybody who narrates)
        res["tty_cols"] = 100
        res["sigspec"] = (0.15, signal.SIGWINCH)
        res["more_signals"] = [(0.1, signal.SIGWINCH)] * 6
        feats["terminal"] = "resized"
    return res


def handover_plays(rng):
    """plays aimed at the channel hand-over of action reports (prompter line -> collector): an action marked `?`
    that really fails, after an earlier successful action of the same actor, in several scenes, by several actors"""
    res = []
    for k, nact in enumerate((1, 3)):
        actors = ["a", "b", "c"][:nact]
        out = ["role worker", "  :ok true", "  :ok2 echo fine", "  :flop exit 3", "  :flop2 echo oops; exit 1", "end", "cast"]
        out += ["  %s plays worker" % a for a in actors]
        out += ["end", "script", "  tempo %dms" % rng.pick([20, 30, 40])]
        for a in actors:
            out.append("  scene g entails for %s: ok; ok2" % a)
            out.append("  scene f entails for %s: ok; flop?; ok2; flop2?" % a)
            out.append("  scene h entails for %s: flop?; flop?; ok" % a)
        out += ["  storyline gfffhf%s" % ("fhf" * rng.range(1, 2)), "end"]
        res.append({"name": "handover%d" % k, "text": "\n".join(out) + "\n", "args": [], "sigspec": None,
                    "features": {"handover": True, "actors": nact, "fail": "tolerated-after-success"}})
    return res


def example_plays():
    """the repository's own examples (run from a scratch directory with the configuration copied)"""
    res = []
    exd = os.path.join(REPO, "examples")
    for n in ("redlight1.cfg", "redlight2.cfg", "redlight3.cfg", "superfast.cfg", "empty.cfg", "expdown.cfg"):
        p = os.path.join(exd, n)
        if os.path.exists(p):
            res.append({"name": "example:" + n, "text": open(p).read(), "args": ["-I", exd], "sigspec": None,
                        "features": {"example": True}})
    return res


BLOCK_RE = re.compile(r"WARNING: DATA RACE\n(.*?)\n==================", re.S)


def parse_reports(txt):
    """list of dict(text, frames=[top frame of each of the two accesses], sym)"""
    res = []
    for m in BLOCK_RE.finditer(txt):
        body = m.group(1)
        tops = []
        for part in re.split(r"\n\n", body):
            if not re.match(r"\s*(Previous )?(Read|Write|Atomic|atomic)", part, re.I):
                continue
            fr = re.findall(r"^\s+(\S+)\(\)\n\s+(\S+?):(\d+)", part, re.M)
            if fr:
                # the innermost frame that lies in the repository (map / slice helpers of the runtime are skipped)
                inrepo = [f for f in fr if f[1].startswith(REPO + "/")]
                f0 = inrepo[0] if inrepo else fr[0]
                fn = f0[0].replace("github.com/knz/shakespeare/", "")
                tops.append({"fn": fn, "file": f0[1].replace(REPO + "/", ""), "line": int(f0[2]),
                             "kind": part.strip().split(" at ")[0]})
        sym = "|".join(sorted(set(t["fn"] for t in tops)))
        res.append({"text": body[:6000], "tops": tops, "sym": sym})
    return res


def run_plays(plays, workers):
    """run each play with the race-built binary; returns list of (play, result, reports)"""
    e2e.BIN = RACEBIN
    objs = []
    for p in plays:
        logdir = tempfile.mkdtemp(prefix="verif-c14-race-")
        p["_logdir"] = logdir
        objs.append(e2e.Play(p["text"], args=p["args"], sigspec=p["sigspec"], timeout=90, keep=True,
                             env={"GORACE": "halt_on_error=0 log_path=%s/race" % logdir},
                             tty_cols=p.get("tty_cols"), more_signals=p.get("more_signals")))
    results = e2e.run_many(objs, workers=workers)
    out = []
    for p, r in zip(plays, results):
        txt = ""
        for f in sorted(glob.glob(os.path.join(p["_logdir"], "race*"))):
            txt += open(f, errors="replace").read() + "\n"
        txt += (r.get("stderr") or "")
        shutil.rmtree(p["_logdir"], ignore_errors=True)
        # goroutines seen: worker names in the main log
        log = ""
        if r.get("rundir"):
            for f in glob.glob(os.path.join(r["rundir"], "logs", "shakespeare-race.log")):
                try:
                    log = open(f, errors="replace").read()
                except OSError:
                    pass
        r["goroutines"] = {tag: log.count(word) for tag, word in (
            ("prompter", "prompter] <intrat>"), ("collector", "collector] <intrat>"), ("audition", "<begins>"),
            ("spotlight", "<shining>"), ("command reader", "reader] <intrat>"), ("cleanup", "<start>"))}
        shutil.rmtree(r["cwd"], ignore_errors=True)
        out.append((p, r, parse_reports(txt)))
    return out


def cmd_locations(facts, top):
    """locations the table lists at the source position of a report's top frame (pkg/cmd only)"""
    if not top["file"].startswith("pkg/cmd/"):
        return None
    pos = "%s:%d" % (os.path.basename(top["file"]), top["line"])
    return sorted(set(a["loc"] for a in facts["accesses"] if a["pos"] == pos))


# ------------------------------------------------------------------------------------------------

def dynamic(rep, facts, rng, n, with_examples, workers, table_ok):
    plays = handover_plays(rng.fork()) + [gen_play(rng.fork(), i, long=(i % 7 == 6)) for i in range(n)]
    if with_examples:
        plays += example_plays()
    t0 = time.time()
    res = run_plays(plays, workers)
    nrep, found, disagree = 0, [], []
    seen_syms = set()
    for p, r, reports in res:
        for k, v in p["features"].items():
            rep.count("play %s=%s" % (k, v))
        rep.count("plays")
        rep.count("exit status %s" % ("timeout" if r["timed_out"] else r["rc"]))
        rep.case((p["name"], p["text"]))
        if r["timed_out"]:
            rep.count("timed out")
        for tag, c in r.get("goroutines", {}).items():
            if c:
                rep.count("goroutines seen: " + tag, c)
        for rr in reports:
            nrep += 1
            rep.count("race reports")
            locs = [cmd_locations(facts, t) for t in rr["tops"]]
            entry = {"play": p["name"], "config": p["text"], "args": ["--ascii-only", "-o", "out"] + p["args"] + ["play.cfg"],
                     "signal": [p["sigspec"][0], p["sigspec"][1].name] if p["sigspec"] else None,
                     "how": "build with `go build -race`, run with GORACE=halt_on_error=0 from an empty directory",
                     "accesses": rr["tops"], "table_locations": locs, "report": rr["text"]}
            if rr["sym"] not in seen_syms:
                seen_syms.add(rr["sym"])
                found.append((rr, entry))
            if table_ok and any(l for l in locs if l):
                disagree.append(entry)
    rep.sample({"play": plays[0]["name"], "config": plays[0]["text"], "args": plays[0]["args"]})
    return {"plays": len(plays), "reports": nrep, "found": found, "disagree": disagree, "wall": time.time() - t0}


def run(tier, seed):
    rep = Report(PROP, tier, seed, "proof")      # claim: partial, see the module text, `assumptions` and `explanation`
    rep.assumptions = [
        "A1 the translator's facts are right (fork tree, pre/post/sep/mid, preDone, joinBeforeDone, lock sets, atomic): derived from the SSA form of pkg/cmd on every run; go / WaitGroup / channel / Mutex / sync/atomic synchronise as the Go memory model says; panics ignored",
        "A2 memory is named by struct type and field; other packages are opaque (pkg/crdb/log, stop, os/exec … are covered only by the race-detector runs); per-instance objects (sink, exec.Cmd, captured locals of one activation) are not shared between instances",
        "A3 (reduced) checked: no function of pkg/cmd writes a field of an object after sending the pointer to it on a channel (sentThenWritten facts, stwOk); assumed: message objects reach another goroutine only through such a send / receive (no aliases kept in fields, maps, slices; no objects leaving pkg/cmd) and the receiver does not write fields the sender still reads",
        "A4 executions that take the one-minute hard-shutdown exit of runConduct are outside the theorem",
        "the race detector is sound only for the schedules it sees; it is the search for a failing input, not the proof"]
    thorough = tier == "thorough"
    rng = SplitMix(seed)
    try:
        os.makedirs(BUILD, exist_ok=True)
        ov = make_overlay()
        build_vaccess()
        build_race(ov)
    except BuildError as e:
        rep.obligation("build", "K", False, e.output)
        rep.violation("build failed: " + e.what, {"output": e.output[-4000:], "broken": "K-C14 (build)"}, nofail=True)
        return rep.finish("./check C14", "n/a")

    # ---- G: regenerate the table, re-check the theorems -----------------------------------------
    facts, table_problem = None, None
    try:
        facts, summary = regenerate(ov)
    except BuildError as e:
        table_problem = {"broken": "translator", "output": e.output[-3000:]}
        rep.obligation("G-C14 access table regenerated", "G", False, e.output[-1500:])
    if facts is not None:
        enc = facts["encoded"]
        rep.obligation("G-C14 access table regenerated from the working tree", "G", True,
                       "%d roots, %d accesses to %d locations in %d functions; %d locations are written: %d rows in the Lean table; "
                       "%d functions send a parameter on a channel, %d sentThenWritten facts; notes: %s"
                       % (len(facts["roots"]), enc["allAccesses"], enc["allLocations"], facts["funcs"], len(enc["locNames"]), enc["rows"],
                          len(facts.get("sendSummary") or {}), len(facts.get("sentThenWritten") or []),
                          "; ".join(facts["notes"] or []) or "none"))
        rep.count("roots", len(facts["roots"]))
        rep.count("accesses", enc["allAccesses"])
        rep.count("locations", enc["allLocations"])
        rep.count("written locations", len(enc["locNames"]))
        rep.count("table rows", enc["rows"])
        rep.count("functions sending a parameter on a channel", len(facts.get("sendSummary") or {}))
        rep.count("sentThenWritten facts", len(facts.get("sentThenWritten") or []))
        for r in facts["roots"]:
            rep.count("root kind " + r["kind"])
        rep.sample({"roots": [(r["name"], r["kind"], r["parents"], "multi" if r["multi"] else "single", r["join"], r["leaks"]) for r in facts["roots"]]})
    ok, info = (False, {"output": "no table", "failed": []})
    if facts is not None:
        ok, info = standard_proof_step(rep, PROP, thorough=thorough)
        if not ok:
            fl, fout = failing_locations(facts)
            table_problem = {"broken": "Shk.C14.table_ok" if (fl or "table_ok" in info.get("failed", [])) else "lake build ShkModel.Props.C14",
                             "failed_theorems": info.get("failed"), "offending": fl,
                             "lean_output": info["output"][-2500:], "policy_eval": (fout or "")[-1500:]}
    rep.trusted = ["Lean 4.33 kernel", "axioms: propext, Quot.sound, Classical.choice (at most)",
                   "harness/cmd/vaccess (translator: go/packages + go/ssa + VTA call graph of golang.org/x/tools %s)" % TOOLS_VERSION,
                   "the hand-written policy lean/ShkModel/Model/RacePolicy.lean and assumptions A1-A4",
                   "Go race detector (dynamic side only)", "vlib (Python orchestration, play generator)"]

    # ---- K: race-detector runs ------------------------------------------------------------------
    n = 150 if thorough else 10
    dyn = dynamic(rep, facts or {"accesses": []}, rng, n, thorough, 12 if thorough else 10, ok)
    if table_problem and not dyn["found"] and not thorough:
        # widened search for a concrete failing input
        more = dynamic(rep, facts or {"accesses": []}, rng.fork(), 150, True, 12, ok)
        dyn["plays"] += more["plays"]
        dyn["reports"] += more["reports"]
        dyn["found"] += more["found"]
        dyn["disagree"] += more["disagree"]
    rep.obligation("K-C14 race detector: %d plays, %d reports" % (dyn["plays"], dyn["reports"]), "K", dyn["reports"] == 0,
                   "" if dyn["reports"] == 0 else "; ".join(sorted(set(f[0]["sym"] for f in dyn["found"]))))
    rep.obligation("K-C14 no report on a location the table calls safe", "K", not dyn["disagree"],
                   "" if not dyn["disagree"] else json.dumps(dyn["disagree"][0]["table_locations"]))

    # ---- decision ---------------------------------------------------------------------------------
    for rr, entry in dyn["found"]:
        tags = {"kind": "data-race", "race": rr["sym"]}
        rep.violation("the race detector reports a data race between %s" % rr["sym"].replace("|", " and "), entry, tags=tags)
    if dyn["disagree"] and not table_problem:
        rep.violation("the race detector reports a race on a location the access table and policy call safe (translator / model error)",
                      {"broken": "K-C14 detector vs table", "reports": dyn["disagree"][:3]}, nofail=True)
    if table_problem and not dyn["found"]:
        rep.violation("the regenerated access table no longer satisfies the discipline (%s) and %d plays under the race detector gave no report"
                      % (table_problem["broken"], dyn["plays"]), table_problem, nofail=True)
    return rep.finish(
        "./check C14 --tier %s  (go build ./harness/cmd/vaccess; vaccess -repo … -lean lean/ShkModel/Gen/Access.lean; lake build ShkModel.Props.C14; go build -race; generated plays)" % tier,
        "P: discipline_sound for every execution of the abstract model (unbounded); G: table_ok = kernel evaluation of disciplineOk on the table regenerated from the working tree; K: %d plays under the Go race detector" % dyn["plays"],
        explanation="partial: proved for the abstract fork/join model under A1-A4; the tie to the code is the regenerated table (translator trusted) and the race-detector runs")


def replay(path):
    """re-run the play of a replay file under the race detector"""
    d = json.load(open(path))
    r = d.get("replay", {})
    if "config" not in r:
        print(json.dumps(d, indent=1)[:4000])
        return 1 if d.get("no_failing_input_found") else 0
    ov = make_overlay()
    build_race(ov)
    sig = r.get("signal")
    play = {"name": "replay", "text": r["config"], "args": [a for a in r["args"][3:-1]],
            "sigspec": (sig[0], getattr(signal, sig[1])) if sig else None, "features": {}}
    hits = 0
    for _ in range(5):
        for p, res, reports in run_plays([dict(play)], 1):
            hits += len(reports)
            for rr in reports[:1]:
                print(rr["text"][:3000])
    print("replay: %d race reports in 5 runs" % hits)
    return 1 if hits else 0
