"""C17 — retry loops respect their attempt and back-off bounds and stop when told.

P   theorems of lean/ShkModel/Props/C17.lean over the model lean/ShkModel/Model/Retry.lean
K-a the real loop (Start/StartWithCtx, Next, NextCh, Reset, closer, context) against the model on
    operation scripts with millisecond back-offs: same outcome per call, and every measured wait at
    least the model's shortest delay (draw u = 0).  Measured times are only ever used as lower bounds.
K-b the real WithMaxAttempts against the model: number of calls of fn, nil / error, success seen.
O-a the monitor of the property (Lean: monRun, strict form) on the events of the real runs.
O-b the WithMaxAttempts clause (Lean: wmaSpec) on what the real calls did.

The model follows the repaired code (fix: 7aa7712 NextCh, 00a346b n = 1, 2a10cc6 nil without a call);
the one remaining contradiction (an attempt after a stop when a Reset was pending) is a known finding.

Where "first attempt immediately" / "at least once" meets "stops when told" (the stop precedes the
very first attempt) the statement decides neither way; both behaviours are accepted there.
"""
import json
from .common import *

PROP = "C17"
MS = 1000000
SLACK = "1/1000000"          # relative float tolerance handed to the Lean monitor
MULTS = [(1, 4), (1, 2), (3, 4), (1, 1), (3, 2), (2, 1), (3, 1), (0, 1)]
RANDS = [(0, 1), (1, 1000000000), (1, 20), (3, 20), (1, 2)]
BUDGET_NS = 350 * MS         # model lower bound of the time one script may wait


def opt_tokens(o):
    return "%d %d %d/%d %d/%d %d" % (o["InitialNs"], o["MaxNs"], o["MultNum"], o["MultDen"],
                                     o["RandNum"], o["RandDen"], o["MaxRetries"])


def gen_opts(rng, slow=False):
    if slow:      # long waits, for stops that must fall inside a wait
        ini = rng.pick([25, 40]) * MS
        mx = rng.pick([ini, 2 * ini, 0])
        mult = rng.pick([(1, 1), (2, 1), (3, 2)])
        rand = rng.pick([(0, 1), (1, 20), (3, 20)])
    else:
        ini = rng.pick([2, 3, 5, 8, 12]) * MS
        if rng.chance(1, 25):
            ini = 0                                   # default 50 ms
        mx = rng.pick([ini, 2 * ini, 4 * ini, 40 * MS, 0])
        mult = rng.pick(MULTS)
        rand = rng.pick(RANDS)
    return {"InitialNs": ini, "MaxNs": mx, "MultNum": mult[0], "MultDen": mult[1],
            "RandNum": rand[0], "RandDen": rand[1], "MaxRetries": rng.pick([0, 0, 1, 2, 3, 5, -1])}


def classify_opts(rep, o):
    m = o["MultNum"] / o["MultDen"]
    rep.count("mult-default" if m == 0 else "mult<1" if m < 1 else "mult=1" if m == 1 else "mult>1")
    rep.count("rand-default" if o["RandNum"] == 0 else "rand-tiny" if o["RandDen"] > 1000 else "rand-%d/%d" % (o["RandNum"], o["RandDen"]))
    rep.count("maxRetries-0" if o["MaxRetries"] == 0 else "maxRetries-neg" if o["MaxRetries"] < 0 else "maxRetries-pos")
    rep.count("initial-default" if o["InitialNs"] == 0 else "initial-set")
    rep.count("max-default" if o["MaxNs"] == 0 else "max=initial" if o["MaxNs"] == o["InitialNs"] else "max>initial")


def model_run(model, sc):
    fl = "%d%d" % (1 if sc["StartClosed"] else 0, 1 if sc["StartCancelled"] else 0)
    ans = model.ask("C17 run %s %s %s" % (opt_tokens(sc["Opts"]), fl, ",".join(op["K"] for op in sc["Ops"]) or "-"))
    return [] if ans in ("-", None) else ans.split(",")


def tok_kind(t):
    return t[:2] if t[:2] in ("cc", "ct", "cn") else t[:1]


def tok_lb(t):
    body = t[2:] if t[:2] == "ct" else t[1:] if t[:1] == "t" else ""
    return int(body) if body not in ("", None) else 0


def gen_script(rng, model, flavour):
    """flavour: next (Next, Reset, stops anywhere), nextch (NextCh, Reset), mixed (Next, NextCh, Reset)."""
    slow = flavour == "next" and rng.chance(1, 3)
    o = gen_opts(rng, slow)
    sc = {"Opts": o, "UseCloser": flavour == "next" and rng.chance(3, 4), "StartClosed": False,
          "StartCancelled": False, "Ops": [], "flavour": flavour}
    if flavour == "next" and rng.chance(1, 12):
        if sc["UseCloser"] and rng.chance(1, 2):
            sc["StartClosed"] = True
        else:
            sc["StartCancelled"] = True
    n = rng.range(3, 9)
    ops = []
    for _ in range(n):
        k = rng.below(14)
        if flavour == "nextch":
            ops.append("h" if k < 11 else "r")
        elif flavour == "mixed":
            ops.append("n" if k < 6 else "h" if k < 11 else "r")
        else:
            if k < 9:
                ops.append("n")
            elif k < 11:
                ops.append("r")
            elif k == 11:
                ops.append("c" if sc["UseCloser"] else "x")
            elif k == 12:
                ops.append("x")
            else:
                ops.append("n")
    sc["Ops"] = [{"K": k, "Us": 0} for k in ops]
    # a stop *during* a wait: only where the model waits at least 20 ms
    if flavour == "next" and slow:
        toks = model_run(model, sc)
        cands = [i for i, t in enumerate(toks) if tok_kind(t) == "t" and tok_lb(t) >= 20 * MS]
        if cands:
            i = rng.pick(cands)
            sc["Ops"][i] = {"K": "nc" if (sc["UseCloser"] and rng.chance(1, 2)) else "nx", "Us": rng.pick([300, 1000, 3000])}
    # keep the waiting time of one script bounded
    toks = model_run(model, sc)
    tot = 0
    for i, t in enumerate(toks):
        tot += tok_lb(t)
        if tot > BUDGET_NS:
            sc["Ops"] = sc["Ops"][:max(i, 1)]
            break
    return sc


CORPUS = [
    # a long unbounded loop: the exponential is far beyond MaxBackoff (and beyond int64) but the wait stays at the cap
    {"Opts": {"InitialNs": 1 * MS, "MaxNs": 2 * MS, "MultNum": 2, "MultDen": 1, "RandNum": 1, "RandDen": 20, "MaxRetries": 0},
     "UseCloser": False, "StartClosed": False, "StartCancelled": False, "flavour": "next",
     "Ops": [{"K": "n", "Us": 0} for _ in range(72)]},
    # a steep multiplier: the cap is reached at the second wait and must hold from then on
    {"Opts": {"InitialNs": 1 * MS, "MaxNs": 6 * MS, "MultNum": 1000000, "MultDen": 1, "RandNum": 1, "RandDen": 10, "MaxRetries": 0},
     "UseCloser": False, "StartClosed": False, "StartCancelled": False, "flavour": "mixed",
     "Ops": [{"K": k, "Us": 0} for k in ["n", "n", "n", "h", "n", "h", "n", "n"]]},
    # Reset, then the closer is closed, then Next (the pending immediate attempt)
    {"Opts": {"InitialNs": 5 * MS, "MaxNs": 20 * MS, "MultNum": 2, "MultDen": 1, "RandNum": 3, "RandDen": 20, "MaxRetries": 0},
     "UseCloser": True, "StartClosed": False, "StartCancelled": False, "flavour": "next",
     "Ops": [{"K": k, "Us": 0} for k in ["n", "n", "r", "c", "n", "n", "r", "n"]]},
    # Start, cancel, Next
    {"Opts": {"InitialNs": 5 * MS, "MaxNs": 20 * MS, "MultNum": 2, "MultDen": 1, "RandNum": 3, "RandDen": 20, "MaxRetries": 3},
     "UseCloser": False, "StartClosed": False, "StartCancelled": False, "flavour": "next",
     "Ops": [{"K": k, "Us": 0} for k in ["x", "n", "n"]]},
    # NextCh with a multiplier below 1 (before fix 7aa7712 its first wait used Initial*Multiplier)
    {"Opts": {"InitialNs": 40 * MS, "MaxNs": 0, "MultNum": 1, "MultDen": 4, "RandNum": 3, "RandDen": 20, "MaxRetries": 0},
     "UseCloser": False, "StartClosed": False, "StartCancelled": False, "flavour": "nextch",
     "Ops": [{"K": k, "Us": 0} for k in ["h", "h", "h"]]},
    # the same schedule through Next
    {"Opts": {"InitialNs": 40 * MS, "MaxNs": 0, "MultNum": 1, "MultDen": 4, "RandNum": 3, "RandDen": 20, "MaxRetries": 0},
     "UseCloser": False, "StartClosed": False, "StartCancelled": False, "flavour": "next",
     "Ops": [{"K": k, "Us": 0} for k in ["n", "n", "n"]]},
    # all defaults (50 ms, x2, 15 %), attempt bound 2, Reset in the middle
    {"Opts": {"InitialNs": 0, "MaxNs": 0, "MultNum": 0, "MultDen": 1, "RandNum": 0, "RandDen": 1, "MaxRetries": 2},
     "UseCloser": False, "StartClosed": False, "StartCancelled": False, "flavour": "next",
     "Ops": [{"K": k, "Us": 0} for k in ["n", "n", "n", "n", "r", "n", "n"]]},
    # the context is cancelled 1 ms into a 40 ms wait
    {"Opts": {"InitialNs": 40 * MS, "MaxNs": 40 * MS, "MultNum": 1, "MultDen": 1, "RandNum": 1, "RandDen": 20, "MaxRetries": 0},
     "UseCloser": True, "StartClosed": False, "StartCancelled": False, "flavour": "next",
     "Ops": [{"K": "n", "Us": 0}, {"K": "nx", "Us": 1000}, {"K": "n", "Us": 0}, {"K": "r", "Us": 0}, {"K": "n", "Us": 0}]},
    # "never": InitialBackoff = MaxBackoff = MaxInt64 ns with the default 15 % jitter; the upper half of the band is beyond
    # int64 (before the clamp in retryIn the conversion wrapped negative and the attempt came at once, 1 draw in 2)
    {"Opts": {"InitialNs": (1 << 63) - 1, "MaxNs": (1 << 63) - 1, "MultNum": 2, "MultDen": 1, "RandNum": 0, "RandDen": 1, "MaxRetries": 0},
     "UseCloser": True, "StartClosed": False, "StartCancelled": False, "flavour": "next",
     "Ops": [{"K": "n", "Us": 0}, {"K": "nx", "Us": 30000}, {"K": "n", "Us": 0}]},
    {"Opts": {"InitialNs": (1 << 63) - 1, "MaxNs": (1 << 63) - 1, "MultNum": 1, "MultDen": 1, "RandNum": 1, "RandDen": 2, "MaxRetries": 0},
     "UseCloser": True, "StartClosed": False, "StartCancelled": False, "flavour": "next",
     "Ops": [{"K": "n", "Us": 0}, {"K": "nc", "Us": 30000}, {"K": "n", "Us": 0}]},
    {"Opts": {"InitialNs": (1 << 63) - 1, "MaxNs": (1 << 63) - 1, "MultNum": 2, "MultDen": 1, "RandNum": 3, "RandDen": 20, "MaxRetries": 0},
     "UseCloser": True, "StartClosed": False, "StartCancelled": False, "flavour": "next",
     "Ops": [{"K": "n", "Us": 0}, {"K": "nx", "Us": 30000}, {"K": "n", "Us": 0}]},
    {"Opts": {"InitialNs": (1 << 63) - 1, "MaxNs": (1 << 63) - 1, "MultNum": 1, "MultDen": 1, "RandNum": 0, "RandDen": 1, "MaxRetries": 0},
     "UseCloser": True, "StartClosed": False, "StartCancelled": False, "flavour": "next",
     "Ops": [{"K": "n", "Us": 0}, {"K": "nc", "Us": 30000}, {"K": "n", "Us": 0}]},
    {"Opts": {"InitialNs": (1 << 63) - 1, "MaxNs": (1 << 63) - 1, "MultNum": 2, "MultDen": 1, "RandNum": 1, "RandDen": 2, "MaxRetries": 0},
     "UseCloser": True, "StartClosed": False, "StartCancelled": False, "flavour": "next",
     "Ops": [{"K": "n", "Us": 0}, {"K": "nx", "Us": 30000}, {"K": "n", "Us": 0}]},
    {"Opts": {"InitialNs": (1 << 63) - 1, "MaxNs": (1 << 63) - 1, "MultNum": 2, "MultDen": 1, "RandNum": 0, "RandDen": 1, "MaxRetries": 0},
     "UseCloser": True, "StartClosed": False, "StartCancelled": False, "flavour": "next",
     "Ops": [{"K": "n", "Us": 0}, {"K": "nc", "Us": 30000}, {"K": "n", "Us": 0}]},
    # closer closed before Start
    {"Opts": {"InitialNs": 5 * MS, "MaxNs": 20 * MS, "MultNum": 2, "MultDen": 1, "RandNum": 3, "RandDen": 20, "MaxRetries": 0},
     "UseCloser": True, "StartClosed": True, "StartCancelled": False, "flavour": "next",
     "Ops": [{"K": k, "Us": 0} for k in ["n", "r", "n"]]},
]


def script_text(sc):
    return "%s | start%s%s | %s" % (opt_tokens(sc["Opts"]), " closed" if sc["StartClosed"] else "",
                                    " cancelled" if sc["StartCancelled"] else "",
                                    ",".join(op["K"] + (str(op["Us"]) if op["K"] in ("nc", "nx") else "") for op in sc["Ops"]))


def stop_lbs(model, sc):
    """for every stop aimed at a wait: the model's shortest delay of that wait (0 if there is no wait)."""
    lbs = {}
    for i, op in enumerate(sc["Ops"]):
        if op["K"] in ("nc", "nx"):
            v = dict(sc)
            v["Ops"] = sc["Ops"][:i] + [{"K": "n", "Us": 0}]
            toks = model_run(model, v)
            lbs[i] = tok_lb(toks[-1]) if toks and tok_kind(toks[-1]) == "t" else 0
    return lbs


def events_of(sc, res, lbs):
    """events of the real run for the monitor; None when a stop aimed at a wait missed it."""
    evs = []
    for i, (op, r) in enumerate(zip(sc["Ops"], res)):
        k = op["K"]
        if k in ("n", "nc", "nx"):
            if k != "n":
                if r["r"] == "t":
                    # the timer won although a stop was due: decisive only if the stop had been
                    # issued well before the shortest possible delay
                    lb = lbs.get(i, 0)
                    if not (lb > 0 and 0 <= r.get("stopAt", -1) < 0.9 * lb):
                        return None
                evs.append("s")
            evs.append("y%d" % r["gap"] if r["r"] == "t" else "n")
        elif k == "h":
            evs.append("n" if r["r"] == "cn" else "y%d" % r["gap"])
        elif k == "r":
            evs.append("r")
        else:
            evs.append("s")
    return evs


def gen_wma(rng):
    o = {"InitialNs": rng.pick([1, 2]) * MS, "MaxNs": rng.pick([2, 4]) * MS, "MultNum": 2, "MultDen": 1,
         "RandNum": rng.pick([0, 3]), "RandDen": 20, "MaxRetries": rng.pick([0, 1, 7])}   # MaxRetries is overwritten by n-1
    n = rng.pick([1, 1, 2, 3, 3, 5, 0, -2])
    c = {"Opts": o, "N": n, "UseCloser": rng.chance(2, 3), "StartClosed": False, "StartCancelled": False,
         "Pattern": [], "StopAfterCalls": 0, "StopKind": "x", "HardCap": 9}
    k = rng.below(10)
    if k < 4:
        c["Pattern"] = []                                             # always fails
    elif k < 8:
        p = rng.range(0, 6)
        c["Pattern"] = [False] * p + [True]                           # succeeds at call p+1
    else:
        c["Pattern"] = [rng.chance(1, 4) for _ in range(6)]
    s = rng.below(12)
    if s == 0:
        if c["UseCloser"] and rng.chance(1, 2):
            c["StartClosed"] = True
        else:
            c["StartCancelled"] = True
    elif s <= 7:
        c["StopAfterCalls"] = s
        c["StopKind"] = "c" if (c["UseCloser"] and rng.chance(1, 2)) else "x"
    return c


WMA_CORPUS = [
    {"Opts": {"InitialNs": MS, "MaxNs": 2 * MS, "MultNum": 2, "MultDen": 1, "RandNum": 3, "RandDen": 20, "MaxRetries": 0},
     "N": 1, "UseCloser": False, "StartClosed": False, "StartCancelled": False, "Pattern": [], "StopAfterCalls": 0, "StopKind": "x", "HardCap": 9},
    {"Opts": {"InitialNs": MS, "MaxNs": 2 * MS, "MultNum": 2, "MultDen": 1, "RandNum": 3, "RandDen": 20, "MaxRetries": 0},
     "N": 3, "UseCloser": True, "StartClosed": True, "StartCancelled": False, "Pattern": [], "StopAfterCalls": 0, "StopKind": "x", "HardCap": 9},
    {"Opts": {"InitialNs": MS, "MaxNs": 2 * MS, "MultNum": 2, "MultDen": 1, "RandNum": 3, "RandDen": 20, "MaxRetries": 0},
     "N": 3, "UseCloser": False, "StartClosed": False, "StartCancelled": True, "Pattern": [True], "StopAfterCalls": 0, "StopKind": "x", "HardCap": 9},
    {"Opts": {"InitialNs": MS, "MaxNs": 2 * MS, "MultNum": 2, "MultDen": 1, "RandNum": 3, "RandDen": 20, "MaxRetries": 0},
     "N": 3, "UseCloser": False, "StartClosed": False, "StartCancelled": False, "Pattern": [], "StopAfterCalls": 0, "StopKind": "x", "HardCap": 9},
    {"Opts": {"InitialNs": MS, "MaxNs": 2 * MS, "MultNum": 2, "MultDen": 1, "RandNum": 3, "RandDen": 20, "MaxRetries": 0},
     "N": 5, "UseCloser": False, "StartClosed": False, "StartCancelled": False, "Pattern": [False, False, True], "StopAfterCalls": 0, "StopKind": "x", "HardCap": 9},
    {"Opts": {"InitialNs": MS, "MaxNs": 2 * MS, "MultNum": 2, "MultDen": 1, "RandNum": 3, "RandDen": 20, "MaxRetries": 0},
     "N": 1, "UseCloser": False, "StartClosed": False, "StartCancelled": False, "Pattern": [True], "StopAfterCalls": 0, "StopKind": "x", "HardCap": 9},
]


def wma_env(c):
    """the environment of the model: per iteration how the wait of that Next resolves, and fn's result."""
    stop_i, kind = None, "x"
    if c["StopAfterCalls"] > 0:
        stop_i, kind = c["StopAfterCalls"], c["StopKind"]
    if c["HardCap"] > 0 and (stop_i is None or c["HardCap"] < stop_i):
        stop_i, kind = c["HardCap"], "x"
    n = (stop_i if stop_i is not None else 12) + 1
    env = []
    for j in range(n):
        ok = j < len(c["Pattern"]) and c["Pattern"][j]
        w = kind if (stop_i is not None and j == stop_i) else "e"
        env.append("%s%d" % (w, 1 if ok else 0))
    return env


def wma_text(c):
    return "n=%d %s pattern=%s stop=%s" % (c["N"], "closed-before" if c["StartClosed"] else "cancelled-before" if c["StartCancelled"] else "live",
                                           "".join("T" if b else "F" for b in c["Pattern"]) or "all-fail",
                                           ("%s after call %d" % (c["StopKind"], c["StopAfterCalls"])) if c["StopAfterCalls"] else "cap")


def eval_script(model, sc, res):
    """one real run against model and oracle -> dict(bad, evs, oracle, lenient, tags, toks, waits)."""
    toks = model_run(model, sc)
    ev = {"toks": toks, "bad": None, "evs": None, "oracle": "ok", "lenient": "ok", "tags": None, "waits": 0, "inconclusive": False}
    if len(res) != len(toks):
        ev["bad"] = "lengths: impl %d ops, model %d" % (len(res), len(toks))
        return ev
    evs = events_of(sc, res, stop_lbs(model, sc))
    if evs is None:
        ev["inconclusive"] = True
        return ev
    ev["evs"] = evs
    for j, (r, t) in enumerate(zip(res, toks)):
        if r["r"] != tok_kind(t):
            ev["bad"] = "op %d (%s): impl %s, model %s" % (j, sc["Ops"][j]["K"], r["r"], t)
            break
        lb = tok_lb(t)
        if lb and r["gap"] < lb * (1 - 1e-6) - 2:
            ev["bad"] = "op %d (%s): measured wait %d ns is shorter than the model's shortest delay %d ns" % (j, sc["Ops"][j]["K"], r["gap"], lb)
            break
        if lb:
            ev["waits"] += 1
    st = "1" if (sc["StartClosed"] or sc["StartCancelled"]) else "0"
    o = model.ask("C17 oracle-trace %s strict %s %s %s" % (opt_tokens(sc["Opts"]), st, SLACK, ",".join(evs) or "-"))
    ev["oracle"] = o
    if o != "ok":
        ol = model.ask("C17 oracle-trace %s lenient %s %s %s" % (opt_tokens(sc["Opts"]), st, SLACK, ",".join(evs) or "-"))
        ev["lenient"] = ol
        clause = (o or "").split("clause=")[-1].split(" ")[0]
        if sc["flavour"] in ("nextch", "mixed"):
            ev["tags"] = {"fn": "NextCh", "clause": clause}
        elif ol == "ok":
            ev["tags"] = {"fn": "Next", "clause": "afterStop", "pendingReset": True}
        else:
            ev["tags"] = {"fn": "Next", "clause": clause}
    return ev


def check_scripts(rep, impl, model, scripts, parallel):
    """returns (kdis, ofail, inconclusive)"""
    kdis, ofail, inconcl = [], [], 0
    for i in range(0, len(scripts), 200):
        chunk = scripts[i:i + 200]
        wire = [{k: v for k, v in sc.items() if k != "flavour"} for sc in chunk]
        out = impl.call("retryScripts", Scripts=wire, Parallel=parallel)
        results = out.get("res") if isinstance(out, dict) else None
        if results is None:
            kdis.append({"harness": out})
            continue
        for sc, w, res in zip(chunk, wire, results):
            txt = script_text(sc)
            rep.case(txt)
            classify_opts(rep, sc["Opts"])
            rep.count("script-" + sc["flavour"])
            for op in sc["Ops"]:
                rep.count("op-" + op["K"])
            if sc["StartClosed"] or sc["StartCancelled"]:
                rep.count("stop-before-start")
            if any(op["K"] in ("c", "x") for op in sc["Ops"]):
                rep.count("stop-between-calls")
            if any(op["K"] in ("nc", "nx") for op in sc["Ops"]):
                rep.count("stop-during-wait")
            ev = eval_script(model, sc, res)
            if ev["inconclusive"]:
                inconcl += 1
                rep.count("inconclusive-stop-missed-its-wait")
                continue
            rep.count("waits-measured", ev["waits"])
            if ev["bad"]:
                kdis.append({"script": txt, "impl": [(r["r"], r["gap"]) for r in res], "model": ev["toks"], "why": ev["bad"]})
            if ev["evs"] is None:
                continue
            rep.count("oracle-traces")
            if ev["oracle"] != "ok":
                ofail.append({"script": txt, "wire": w, "events": ev["evs"], "oracle": ev["oracle"], "lenient": ev["lenient"],
                              "tags": ev["tags"], "impl": [(r["r"], r["gap"]) for r in res]})
    return kdis, ofail, inconcl


def check_wma(rep, impl, model, cases, parallel):
    kdis, ofail = [], []
    for i in range(0, len(cases), 500):
        chunk = cases[i:i + 500]
        out = impl.call("retryWMA", Cases=chunk, Parallel=parallel)
        results = out.get("res") if isinstance(out, dict) else None
        if results is None:
            kdis.append({"harness": out})
            continue
        for c, r in zip(chunk, results):
            txt = wma_text(c)
            rep.case("wma " + opt_tokens(c["Opts"]) + " " + txt)
            rep.count("wma-n=%s" % ("<=0" if c["N"] <= 0 else c["N"]))
            rep.count("wma-" + ("stop-before-call" if (c["StartClosed"] or c["StartCancelled"]) else
                                "stop-in-call" if c["StopAfterCalls"] else "no-stop"))
            rep.count("wma-pattern-" + ("all-fail" if not any(c["Pattern"]) else "has-success"))
            fl = "%d%d" % (1 if c["StartClosed"] else 0, 1 if c["StartCancelled"] else 0)
            m = model.ask("C17 wma %s %d %s %s" % (opt_tokens(c["Opts"]), c["N"], fl, ",".join(wma_env(c))))
            got = "%d %s %d" % (r["calls"], "nil" if r["nil"] else "err", 1 if r["succeeded"] else 0)
            if r.get("hang") or r.get("panic") or got != m:
                kdis.append({"case": txt, "impl": r, "model": m})
            if r.get("hang") or c["N"] <= 0:
                continue
            before = 1 if (c["StartClosed"] or c["StartCancelled"]) else 0
            o = model.ask("C17 oracle-wma %d %d %d %d %d" % (c["N"], before, r["calls"], 1 if r["nil"] else 0, 1 if r["succeeded"] else 0))
            if r["calls"] == 0:
                rep.count("wma-no-call-because-stopped-before")
            rep.count("oracle-wma")
            if o != "ok":
                if r["calls"] > c["N"] and c["N"] == 1:
                    case = "n=1-unbounded"
                elif r["calls"] == 0 and r["nil"]:
                    case = "nil-without-call"
                else:
                    case = "other"
                ofail.append({"case": txt, "wire": c, "impl": r, "oracle": o,
                              "tags": {"fn": "WithMaxAttempts", "case": case}})
    return kdis, ofail


def run(tier, seed):
    rep = Report(PROP, tier, seed, "proof")
    rep.assumptions = [
        "floating point (float64 products, math.Pow, rand.Float64) is idealised as exact rational arithmetic with a draw u in [0,1); the check compares with relative tolerance 1e-6",
        "Go's select: a closer / context that has already fired when Next is entered wins (since bee36b3 Next tests both before it waits; model: `next` returns halted when stopped); a stop that falls *inside* a wait races with the timer, and is judged only when it was issued well before the model's shortest delay",
        "time.After(d) never delivers before d; measured gaps are used as lower bounds; the upper edges of the band (MaxBackoff cap, +r) are shown on the model, and on the real loop only coarsely (O-C17-cap: three long loops, a wait counts as late when it is 150 ms beyond its upper edge in three runs out of three)",
        "NextCh leaves watching the closer / context to its caller; the stop clause is checked for Next only",
        "option sets with non-negative back-offs, multiplier and randomisation factor; r <= 1 for the whole-nanosecond statements"]
    try:
        build_go()
        build_driver()
    except BuildError as e:
        rep.obligation("build", "K", False, e.output)
        rep.violation("build failed: " + e.what, {"output": e.output[-4000:], "broken": "K-C17 (build)"}, nofail=True)
        return rep.finish("./check C17", "n/a")
    impl, model = Impl(), Model()
    ok, info = standard_proof_step(rep, PROP, thorough=(tier == "thorough"))
    rng = SplitMix(seed)
    quick = tier == "quick"
    par = 8 if quick else 12

    # ---- K-C17a / O-C17a: loops ---------------------------------------------------------
    nn, nh, nm = (260, 100, 50) if quick else (5000, 1800, 700)
    scripts = [dict(sc) for sc in CORPUS]
    scripts += [gen_script(rng, model, "next") for _ in range(nn)]
    scripts += [gen_script(rng, model, "nextch") for _ in range(nh)]
    scripts += [gen_script(rng, model, "mixed") for _ in range(nm)]
    kdis, ofail, inconcl = check_scripts(rep, impl, model, scripts, par)
    for sc in scripts[:2]:
        rep.sample({"script": script_text(sc), "model": ",".join(model_run(model, sc))})

    # ---- K-C17b / O-C17b: WithMaxAttempts ----------------------------------------------
    nw = 600 if quick else 12000
    cases = [dict(c) for c in WMA_CORPUS] + [gen_wma(rng) for _ in range(nw)]
    wkdis, wofail = check_wma(rep, impl, model, cases, par)
    rep.sample({"withMaxAttempts": wma_text(cases[4]), "env": ",".join(wma_env(cases[4]))})

    # ---- O-C17-stop: a closer closed (a context cancelled) BEFORE Next is entered wins over a timer that is already due ----
    burst = []
    nb = 4000 if tier == "quick" else 40000
    for use_closer in (True, False):
        bsc = {"Opts": {"InitialNs": 1, "MaxNs": 1, "MultNum": 1, "MultDen": 1, "RandNum": 0, "RandDen": 1, "MaxRetries": 0},
               "UseCloser": use_closer, "StartClosed": False, "StartCancelled": False,
               "Ops": [{"K": "n", "Us": 0}, {"K": "c" if use_closer else "x", "Us": 0}, {"K": "n", "Us": 0}]}
        ob = impl.call("retryScripts", Scripts=[bsc] * nb, Parallel=8)
        rb = ob.get("res") or []
        late = sum(1 for r in rb if r and r[-1]["r"] == "t")
        rep.count("stop-then-next with a 1 ns back-off", len(rb))
        if late or len(rb) != nb:
            burst.append({"stopped by": "closer" if use_closer else "context", "runs": len(rb), "attempts yielded after the stop": late, "script": bsc})
    # ---- O-C17-cap: the upper edge, on long loops whose back-off stays far below MaxBackoff ----------------------
    # (delay_below_cap / backoff_band are about the model; a measured gap is no upper bound in general — the machine may be
    # busy — so a late attempt only counts when it is at least 150 ms late, at the same op, in three runs out of three)
    capfail = []
    LATE_NS = 150 * MS
    for num, den in ((1, 1), (21, 20), (1, 2)):
        csc = {"Opts": {"InitialNs": 200000, "MaxNs": 400 * MS, "MultNum": num, "MultDen": den, "RandNum": 1, "RandDen": 20, "MaxRetries": 0},
               "UseCloser": False, "StartClosed": False, "StartCancelled": False, "Ops": [{"K": "n", "Us": 0} for _ in range(72)]}
        late_sets = []
        for attempt in range(3):
            oc = impl.call("retryScripts", Scripts=[csc], Parallel=1)
            rc = (oc.get("res") or [None])[0] if isinstance(oc, dict) else None
            if not rc or len(rc) != 72 or any(r["r"] != "t" for r in rc):
                capfail.append({"script": csc["Opts"], "problem": "the loop did not yield 72 attempts", "impl": str(oc)[:300]})
                break
            late = set()
            for j, r in enumerate(rc):
                if j == 0:
                    continue
                hi = min(200000 * (num / den) ** (j - 1), 400 * MS) * 1.05 + 1
                if r["gap"] > hi + LATE_NS:
                    late.add((j, int(hi), r["gap"]))
            rep.count("cap: waits measured against the upper edge", 71)
            late_sets.append(late)
            if not late:
                break
        else:
            common = set(j for j, _, _ in late_sets[0])
            for ls in late_sets[1:]:
                common &= set(j for j, _, _ in ls)
            if common:
                capfail.append({"script": csc["Opts"], "ops": "72 x Next",
                                "problem": "attempts %s come more than 150 ms after the upper edge of their band min(Initial*Multiplier^n, Max)*(1+r), in three runs out of three" % sorted(common)[:8],
                                "measured": sorted(late_sets[-1])[:8]})
    rep.obligation("O-C17-cap: 72 attempts with Initial 0.2 ms, Max 400 ms and multipliers 1, 1.05, 0.5: no wait beyond the upper edge of its band (+150 ms, confirmed three times)",
                   "O", not capfail, json.dumps(capfail, default=str)[:900])
    rep.obligation("O-C17-stop: %d x (Next; stop; Next) with a 1 ns back-off, by closer and by context: no attempt after the stop" % (2 * nb), "O", not burst, json.dumps(burst)[:600])
    rep.obligation("K-C17a: real loop vs model on %d scripts (outcomes; measured waits >= model's shortest delay; %d inconclusive)" % (len(scripts), inconcl),
                   "K", not kdis, json.dumps(kdis[:3], default=str))
    rep.obligation("K-C17b: real WithMaxAttempts vs model on %d cases" % len(cases), "K", not wkdis, json.dumps(wkdis[:3], default=str))

    # group the oracle failures by what they are
    groups = {}
    for f in ofail + wofail:
        groups.setdefault(json.dumps(f["tags"], sort_keys=True), []).append(f)
    unknown, unknown_fns, known_n = 0, set(), 0
    for key, fs in sorted(groups.items()):
        tags = fs[0]["tags"]
        f = fs[0]
        if tags["fn"] == "WithMaxAttempts":
            what = "WithMaxAttempts(%s): %d calls of fn, returned %s — %s" % (f["case"], f["impl"]["calls"], "nil" if f["impl"]["nil"] else "an error", f["oracle"])
        else:
            what = "%s: %s on script %s" % (tags["fn"], f["oracle"], f["script"])
        if rep.violation(what, {"failing": fs[:5], "count": len(fs)}, tags=tags):
            unknown += 1
            unknown_fns.add(tags["fn"])
        else:
            known_n += len(fs)
            rep.count("inputs-hitting-a-known-finding", len(fs))
    if burst:
        b = burst[0]
        if rep.violation("Next yields an attempt although the %s was closed / cancelled before it was called: %d of %d runs with a 1 ns back-off"
                         % (b["stopped by"], b["attempts yielded after the stop"], b["runs"]), {"failing": burst},
                         tags={"fn": "Next", "clause": "afterStop", "pendingReset": False, "burst": True}):
            unknown += 1
            unknown_fns.add("stop-burst")
    for f in capfail:
        if rep.violation("a retry loop waits far beyond min(Initial*Multiplier^n, Max)*(1+r)", f, tags={"fn": "Next", "clause": "upperEdge"}):
            unknown += 1
            unknown_fns.add("cap")
    known_only = bool(groups) and unknown == 0
    loop_bad = bool(unknown_fns & {"Next", "NextCh"})
    rep.obligation("O-C17a: the monitor of the property (strict) accepts the events of every real loop run (inputs matching a known finding excepted)", "O",
                   not loop_bad, json.dumps([{"script": f["script"], "oracle": f["oracle"], "tags": f["tags"]} for f in ofail[:4]]))
    rep.obligation("O-C17b: WithMaxAttempts: 1 <= calls <= n and nil iff a call succeeded, on every real call (inputs matching a known finding excepted)", "O",
                   "WithMaxAttempts" not in unknown_fns, json.dumps([{"case": f["case"], "oracle": f["oracle"], "tags": f["tags"]} for f in wofail[:4]]))

    if unknown == 0:
        if not ok:
            rep.violation("proof obligations of C17 no longer check",
                          {"broken_theorems": info["failed"], "lean_output": info["output"][-3000:]}, nofail=True)
        elif kdis or wkdis:
            rep.violation("correspondence K-C17 disagrees", {"broken": "K-C17a/b", "disagreements": (kdis + wkdis)[:10]}, nofail=True)
    impl.close()
    model.close()
    return rep.finish("cd lean && lake build ShkModel.Props.C17 && #print axioms",
                      "operation scripts over Next / NextCh / Reset / close / cancel with random option sets (multiplier below, at and above 1; cap hit or not; "
                      "defaults; MaxRetries 0, negative, positive), stops before the start, between calls and inside a wait; WithMaxAttempts over n, success "
                      "patterns and stop instants; a case is distinct by its option set + script text; non-trivial = at least one call was made",
                      explanation=("%d inputs violate the property on the real code, all of them instances of known findings" % known_n if known_only else None))


def replay(path):
    """re-run the failing inputs of a replay file on the real code and show what the oracle says."""
    d = json.load(open(path))
    build_go()
    build_driver()
    impl, model = Impl(), Model()
    rc = 0
    for f in d.get("replay", {}).get("failing", []):
        if "script" in f:
            sc = dict(f["wire"])
            sc["flavour"] = "nextch" if f["tags"]["fn"] == "NextCh" else "next"   # NextCh / mixed scripts have no stops
            rep = Report(PROP, "quick", 0, "proof")
            k, o, _ = check_scripts(rep, impl, model, [sc], 1)
            print(f["script"], "->", [x["oracle"] for x in o] or "ok", "K:", [x["why"] for x in k] or "agrees")
            rc |= 1 if o else 0
        else:
            rep = Report(PROP, "quick", 0, "proof")
            k, o = check_wma(rep, impl, model, [f["wire"]], 1)
            print(f["case"], "->", [x["oracle"] for x in o] or "ok")
            rc |= 1 if o else 0
    impl.close()
    model.close()
    return rc
