"""Configurations and histories for the audition model and the real audit loop:
one abstract description, two renderings (shakespeare configuration text / model tokens),
parsers of what both sides answer, canonical comparison."""
import json
import re
from fractions import Fraction
from .common import hexs

# ---- expressions -------------------------------------------------------------------
# ("num", Fraction) ("str", s) ("bool", b) ("var", actor, sig)
# ("not", e) ("neg", e) ("bin", op, a, b) ("ite", c, a, b) ("call1", f, e) ("call2", f, a, b)
OPS = {"add": "+", "sub": "-", "mul": "*", "div": "/", "eq": "==", "ne": "!=", "lt": "<", "le": "<=",
       "gt": ">", "ge": ">=", "and": "&&", "or": "||"}


def num(x):
    return ("num", Fraction(x))


def var(sig, actor=""):
    return ("var", actor, sig)


def fmt_num(q):
    q = Fraction(q)
    if q.denominator == 1:
        return str(q.numerator)
    # finite decimal only
    d = q.denominator
    while d % 2 == 0:
        d //= 2
    while d % 5 == 0:
        d //= 5
    assert d == 1, "non-decimal literal"
    s = "%.10f" % float(q)
    return s.rstrip("0")


def src(e):
    k = e[0]
    if k == "num":
        return fmt_num(e[1]) if e[1] >= 0 else "(0 - %s)" % fmt_num(-e[1])
    if k == "str":
        return "'%s'" % e[1]
    if k == "bool":
        return "true" if e[1] else "false"
    if k == "var":
        return "[%s %s]" % (e[1], e[2]) if e[1] else e[2]
    if k == "not":
        return "!(%s)" % src(e[1])
    if k == "neg":
        return "-(%s)" % src(e[1])
    if k == "bin":
        return "(%s %s %s)" % (src(e[2]), OPS[e[1]], src(e[3]))
    if k == "ite":
        return "((%s) ? (%s) : (%s))" % (src(e[1]), src(e[2]), src(e[3]))
    if k == "call1":
        return "%s(%s)" % (e[1], src(e[2]))
    if k == "call2":
        return "%s(%s, %s)" % (e[1], src(e[2]), src(e[3]))
    raise ValueError(e)


def rat(q):
    q = Fraction(q)
    return "%d/%d" % (q.numerator, q.denominator)


def sc_tok(v):
    if v is None:
        return "nil"
    if isinstance(v, bool):
        return "b:t" if v else "b:f"
    if isinstance(v, str):
        return "s:" + hexs(v)
    return "n:" + rat(v)


def toks(e):
    k = e[0]
    if k == "num":
        return ["n:" + rat(e[1])]
    if k == "str":
        return ["s:" + hexs(e[1])]
    if k == "bool":
        return ["b:t" if e[1] else "b:f"]
    if k == "var":
        return ["v:%s:%s" % (hexs(e[1]), hexs(e[2]))]
    if k == "not":
        return ["not"] + toks(e[1])
    if k == "neg":
        return ["neg"] + toks(e[1])
    if k == "bin":
        return ["op:" + e[1]] + toks(e[2]) + toks(e[3])
    if k == "ite":
        return ["ite"] + toks(e[1]) + toks(e[2]) + toks(e[3])
    if k == "call1":
        return ["c1:" + hexs(e[1])] + toks(e[2])
    if k == "call2":
        return ["c2:" + hexs(e[1])] + toks(e[2]) + toks(e[3])
    raise ValueError(e)


def deps(e):
    k = e[0]
    if k == "var":
        return [(e[1], e[2])]
    res = []
    for x in e[1:]:
        if isinstance(x, tuple) and x and isinstance(x[0], str) and x[0] in (
                "num", "str", "bool", "var", "not", "neg", "bin", "ite", "call1", "call2"):
            res += deps(x)
    return res


# ---- configurations ----------------------------------------------------------------
# cfg = {"signals": [(name, "scalar"|"event"|"delta")], "actors": [..],
#        "members": [{"name", "cond": expr|None, "assigns": [{"target","mode","n","expr"}],
#                     "expect": (modality, expr)|None, "watches": [(actor, sig)]}]}
TRUE = ("bool", True)
SIGRE = {"scalar": r"(?P<ts_now>)%s=(?P<scalar>\S+)", "event": r"(?P<ts_now>)%s=(?P<event>\S+)",
         "delta": r"(?P<ts_now>)%s=(?P<delta>\S+)"}
TYPCODE = {"event": 0, "scalar": 1, "delta": 2}


def config_text(cfg, extra=""):
    out = []
    if cfg.get("signals"):
        out.append("role r")
        out.append("  spotlight true")
        for n, t in cfg["signals"]:
            out.append("  signal %s %s at %s" % (n, t, SIGRE[t] % n))
        out.append("end")
        out.append("cast")
        for a in cfg["actors"]:
            out.append("  %s plays r" % a)
        out.append("end")
    out.append("audience")
    for m in cfg["members"]:
        n = m["name"]
        if m.get("cond") is not None:
            if m["cond"] == TRUE:
                out.append("  %s audits throughout" % n)
            else:
                out.append("  %s audits only while %s" % (n, src(m["cond"])))
        for a in m.get("assigns", []):
            if a["mode"] == "single":
                out.append("  %s computes %s as %s" % (n, a["target"], src(a["expr"])))
            else:
                out.append("  %s collects %s as %s %d %s" % (n, a["target"], a["mode"], a["n"], src(a["expr"])))
        if m.get("expect"):
            out.append("  %s expects %s: %s" % (n, m["expect"][0], src(m["expect"][1])))
        for (ac, sg) in m.get("watches", []):
            out.append("  %s watches %s" % (n, (ac + " " + sg) if ac else sg))
        if m.get("only_helps"):
            out.append("  %s only helps" % n)
    out.append("end")
    if extra:
        out.append(extra)
    return "\n".join(out) + "\n"


def member_tokens(m):
    t = ["m:" + hexs(m["name"])]
    cond = m.get("cond")
    if cond is None:
        cond = TRUE          # ensureAuditCond synthesises `true`
    t += toks(cond)
    asg = m.get("assigns", [])
    t.append(str(len(asg)))
    for a in asg:
        t.append("a:%s:%s:%d" % (hexs(a["target"]), a["mode"], a.get("n", 0)))
        t += toks(a["expr"])
    if m.get("expect"):
        t.append("x:" + hexs(m["expect"][0]))
        t += toks(m["expect"][1])
    else:
        t.append("none")
    w = m.get("watches", [])
    t.append(str(len(w)))
    for (ac, sg) in w:
        t.append("v:%s:%s" % (hexs(ac), hexs(sg)))
    t.append("own")
    return t


# ---- histories -----------------------------------------------------------------------
# ev = ("mood", ts, mood) | ("sig", ts, [(typ, actor, sig, value)])   value: Fraction | str

def events_json(evs):
    res = []
    for e in evs:
        if e[0] == "mood":
            res.append({"Kind": "mood", "Ts": float(e[1]), "Mood": e[2]})
        else:
            res.append({"Kind": "sig", "Ts": float(e[1]), "Values": [
                {"Actor": a, "Sig": s, "Typ": TYPCODE[t], "Val": (v if isinstance(v, str) else float(v))}
                for (t, a, s, v) in e[2]]})
    return res


def events_tokens(evs):
    t = [str(len(evs))]
    for e in evs:
        if e[0] == "mood":
            t.append("mood:%s:%s" % (rat(e[1]), hexs(e[2])))
        else:
            t.append("sig:%s:%d" % (rat(e[1]), len(e[2])))
            for (ty, a, s, v) in e[2]:
                t.append("%d:%s:%s" % (TYPCODE[ty], hexs(a), hexs(s)))
                t.append(sc_tok(v))
    return t


def model_request(cfg, evs, tend):
    t = ["AUD", "run", str(len(cfg["members"]))]
    for m in cfg["members"]:
        t += member_tokens(m)
    t += events_tokens(evs)
    t.append(rat(tend))
    return " ".join(t)


# ---- answers -------------------------------------------------------------------------
def unhex(t):
    return bytes.fromhex(t[1:]).decode("utf-8", "replace")


def parse_model_val(t):
    if t == "nil":
        return None
    if t.startswith("["):
        inner = t[1:-1]
        return [parse_model_val(x) for x in inner.split(",")] if inner else []
    k, _, r = t.partition(":")
    if k == "n":
        a, b = r.split("/")
        return Fraction(int(a), int(b))
    if k == "s":
        return unhex(r)
    if k == "b":
        return r == "t"
    raise ValueError(t)


def parse_model(ans):
    """-> dict(abort, stream=[canonical items], vars={})"""
    head, _, rest = ans.partition(" | ")
    body, _, vars_ = (head + " | " + rest).partition(" || ")
    parts = body.split(" | ")
    abort = parts[0].split("=", 1)[1]
    stream = []
    for p in parts[1:]:
        f = p.split(" ")
        if f[0] == "obs":
            stream.append(("obs", Fraction(*map(int, f[1].split("/"))), int(f[2]),
                           (unhex(f[3]), unhex(f[4])), parse_model_val(f[5])))
        elif f[0] == "rep":
            stream.append(("rep", Fraction(*map(int, f[1].split("/"))), unhex(f[2]), int(f[3])))
        elif f[0] in ("start", "stop"):
            stream.append((f[0], unhex(f[1])))
        elif p.strip() == "":
            pass
        else:
            raise ValueError("model item %r" % p)
    vs = {}
    for kv in vars_.split():
        k, _, v = kv.partition("=")
        vs[unhex(k)] = parse_model_val(v)
    return {"abort": abort, "stream": stream, "vars": vs}


def parse_impl_val(s):
    """the collector receives values formatted with %v"""
    if s.startswith("[") and s.endswith("]"):
        inner = s[1:-1].strip()
        return [parse_impl_val(x) for x in inner.split()] if inner else []
    if s == "true":
        return True
    if s == "false":
        return False
    if s == "<nil>":
        return None
    try:
        return float(s)
    except ValueError:
        return s


_STR = r'"((?:[^"\\]|\\.)*)"'


def parse_impl(res):
    """merge Events and Judged (by JudgedPos) into one canonical stream."""
    evs = res.get("Events") or []
    jud = res.get("Judged") or []
    pos = res.get("JudgedPos") or []
    items = []
    ji = 0
    for i, e in enumerate(evs + [None]):
        while ji < len(jud) and pos[ji] <= i:
            m = re.match(r"^(\S+) (starts|stops) auditing$", jud[ji])
            if m:
                items.append(("start" if m.group(2) == "starts" else "stop", m.group(1)))
            ji += 1
        if e is None:
            break
        if e.startswith("obs "):
            m = re.match(r"^obs (\S+) (\d) " + _STR + " " + _STR + "$", e)
            vn = json.loads('"%s"' % m.group(3))
            actor, _, sig = vn.rpartition(" ")
            raw = json.loads('"%s"' % m.group(4))
            # an event's value is text, whatever it looks like; array values of computed variables
            # also travel with the event type
            val = raw if (int(m.group(2)) == 0 and not (raw.startswith("[") and raw.endswith("]")) and actor) else parse_impl_val(raw)
            items.append(("obs", float(m.group(1)), int(m.group(2)), (actor, sig), val))
        elif e.startswith("rep "):
            m = re.match(r"^rep (\S+) " + _STR + r" (\d) ", e)
            items.append(("rep", float(m.group(1)), json.loads('"%s"' % m.group(2)), int(m.group(3))))
    return {"abort": "none" if not res.get("Err") else "evalError", "stream": items,
            "vars": {k: v for k, v in (res.get("Vars") or {}).items()}, "err": res.get("Err")}


def num_eq(a, b, tend=None):
    if isinstance(a, bool) or isinstance(b, bool) or a is None or b is None or isinstance(a, str) or isinstance(b, str):
        return a == b
    if isinstance(a, list) or isinstance(b, list):
        return isinstance(a, list) and isinstance(b, list) and len(a) == len(b) and all(num_eq(x, y, tend) for x, y in zip(a, b))
    fa, fb = float(a), float(b)
    if tend is not None and fa >= tend - 0.5 and fb >= tend - 0.5 and abs(fa - fb) < 5:
        return True     # time stamps / values of the final round (wall clock in the real loop)
    return abs(fa - fb) <= 1e-9 * max(1.0, abs(fa), abs(fb))


def item_eq(x, y, tend):
    if x[0] != y[0]:
        return False
    if x[0] in ("start", "stop"):
        return x[1] == y[1]
    if x[0] == "rep":
        return x[2] == y[2] and x[3] == y[3] and num_eq(x[1], y[1], tend)
    if x[0] == "obs":
        return x[2] == y[2] and x[3] == y[3] and num_eq(x[1], y[1], tend) and num_eq(x[4], y[4], tend)
    return False


def stream_diff(impl, model, tend, keep=lambda it: True):
    a = [it for it in impl["stream"] if keep(it)]
    b = [it for it in model["stream"] if keep(it)]
    for i in range(max(len(a), len(b))):
        if i >= len(a) or i >= len(b) or not item_eq(a[i], b[i], tend):
            return {"index": i, "impl": str(a[i]) if i < len(a) else None, "model": str(b[i]) if i < len(b) else None}
    return None
